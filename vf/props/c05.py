"""C05 - LLCP data link connections deliver in order, exactly once, within the window.

Monitors, all on two real nfc.llcp.llc.LogicalLinkController objects joined at PDU level (vf.sim.llcpair):

1. lock-step histories (single-threaded, deterministic): application calls on both ends
   (send(MSG_DONTWAIT), recv after poll("recv",0), poll, setsockopt(SO_RCVBSY), close) interleaved with strictly
   alternating link turns; bounded-exhaustive enumeration of short histories and long random walks over
   RW 0..15 / connection MIU 128..2175 / aggregation on-off / which end connects / "early" set-ups: 1 = the
   accepting end may act before the CC has left, 2 = additionally the thread inside connect() runs again only at an
   explicit step J (it "was not scheduled" for some link turns). connect()/close() block by design: their waits
   turn the link (PumpCond) or, in the early set-ups, sit in a helper thread whose progress the history controls.
   One to three data link connections per link (Conn): a second one on the same listening SAP, a third on another
   SAP with either end connecting; every connection has a reference window model of its own, selected by the SAP
   pair of each wire PDU, and accepted / delivered lists of its own (messages carry a per-connection tag).
   A second bounded-exhaustive part uses macro operations (send x RW, send(MIU), send(MIU + 1), recv x k, link turns
   until quiet), configurations with B connecting, connection MIU != link MIU, N(S) positions 8..15 at the start
   of the history (so that 3-5 step histories reach a full window across the 15 -> 0 wrap) and 2-3 connections.
2. thread stress: both real run() loops, blocking sender and receiver threads on the connection's two sockets,
   yield injection through sys.monitoring LINE events in nfc/llcp/tco.py and llc.py.  Half of the runs have one
   sender and one receiver thread per end; in the others 2-4 sender threads (and 1-2 receiver threads) share the
   socket of an end and the peer announces RW 1..3, so that the senders queue up on the window and every
   acknowledgement is contended (a woken sender is additionally kept off the lock until another sender has entered
   send(), so that "woken sender finds the window full again" happens in every such run).  Close runs: a further
   thread calls close() on one end while 1-3 senders work against a window of 1..3 and the receivers are blocked.
3. forced schedules (Gated): the same contention made deterministic on a lock-step pair: the window is full, 1-3
   threads sit in blocking send() calls, the acknowledgement(s) arrive, the woken threads are held back before they
   re-acquire the connection's lock (GateCond, a delegating stand-in for the connection's Condition installed on the
   harness side) while further send() calls (blocking threads or MSG_DONTWAIT) take the freed slots, then the
   woken threads run; the receiver is prompt or calls recv() only when the link went quiet.  Same for two threads
   in recv() and a message that a third recv() takes first (observation: recv() then returns None on an open
   connection - not judged, no message is lost).  Close scenarios (run_close): close() by the sending end or by
   its peer while 1-3 senders sit on the full window or one send() has its I PDU still queued, 0-2 threads blocked
   in recv() on either end.

Oracles (identical in all):
  deliver/*   per direction the messages returned by recv() are a prefix of the messages accepted by send(),
              exactly once and in order; equal at quiescence unless close() was called on the connection.  With
              several threads on a socket "in order" is what the harness can know: m1 before m2 whenever send(m1)
              had returned before send(m2) was called (always within one sender thread), judged per receiver
              thread; no duplicates; multiset equality at quiescence (judge_delivery).
              Close class: after x called close() and y did not, y's application calls recv() until it returns None
              or raises; it must then have got every I PDU of x that the wire carried before the DISC (accepted by
              send() and transmitted; what close() found still queued may be dropped) (deliver/lost-after-peer-close).
              Threaded runs: deliver/lost-at-quiescence/* is decided structurally (detect_lost): all sender threads
              returned, only SYMM PDUs for 60 frames, every receiver thread a registered waiter, delivered < accepted.
  window/*    vf.ref.window_model over the wire PDUs as decoded by vf.ref.llcp_ref (RW/MIU from CONNECT/CC on the
              wire); a send refused with EWOULDBLOCK although fewer than RW(peer) of the accepted messages are
              unacknowledged on the wire - unless the peer's last RR/RNR on the wire says "busy" (a sender that
              honours RNR holds back; nfcpy does not, the property does not say)
  miu/*       send(len > MIU announced by the peer) must be refused with EMSGSIZE and never show up anywhere
  escape/*    a link turn or an application call raises something the API does not document
  stall/*     (threads) an application thread sits in an untimed Condition.wait(), was never notified, although the
              wire shows that the event it waits for has happened (lost wake-up); after close(): every live
              application thread is such a waiter and the wire is quiet (stall/blocked-after-close/*: "every call
              returns"); decided from the wire log and the waiter registration, never from wall-clock time
The first violation of a history ends it (later symptoms are consequences of the same state).
An AttributeError/KeyError that comes from the harness's own steering through nfcpy / CPython internals (_tco,
recv_ready, send_token, Condition._waiters, _release_save ...) is INCONCLUSIVE, never escape/* (steer, steering_fault).
"""
import errno
import hashlib
import itertools
import json
import random
import sys
import threading
import time

from vf.core.rec import exc_sig
from vf.ref import llcp_ref as ref
from vf.ref.window_model import WindowModel

ID = "C05"
LEVEL = "exploration"
RULE = ("cases = (a) every history of length <= depth (quick 6, thorough 6 over the full and 8 over a reduced alphabet) "
        "over {link turn, send/recv/busy-toggle/close on either end, 'connect() returns'} for 12 "
        "window/aggregation/set-up configurations; a history is cut at its first no-op step (covered by the shorter "
        "history) and calls on different ends without a link turn in between are executed in one order only "
        "(they commute), (a2) the same over macro operations {send x RW, send(MIU), send(MIU+1), recv x k, link turns "
        "until quiet, busy on A, close by B, ...} (quick depth 3-4, thorough 5-6) for 12 further configurations: B "
        "connecting, connection MIU != link MIU, 8..15 messages per direction exchanged beforehand (N(S) position), "
        "two or three data link connections on the link (same listening SAP / other SAP), "
        "(b) random walks of 2000 (thorough 5000) steps with traffic profiles that change every "
        "~100 steps over random RW 0..15, connection MIU 128..2175, link MIU, aggregation, connecting end, 20% of "
        "them with application calls on the accepting end before the CC left / before connect() returned, 36% of the "
        "others with 2-3 connections, a close() in 20% (50% with several connections) of the walks, "
        "(c) threaded runs with blocking calls, 50-500 messages per direction, randomised yields, half of them with "
        "2-4 sender and 1-2 receiver threads per socket and RW 1..3 announced to the senders, close runs, (d) forced "
        "schedules over RW 1..3 x 1-3 blocked senders x slots freed x number of RR PDUs x late-coming send() calls x N(S) "
        "position x prompt/lazy receiver in which a woken sender is held before it re-acquires the lock, and close "
        "scenarios over {local, peer close} x {window full, I PDU in flight} x blocked receivers; a case is distinct "
        "by (configuration, operation list) resp. (configuration incl. seeds) and non-trivial when at least one "
        "I PDU went through the window model and one recv() was compared with the accepted sends")
ASSUMPTIONS = ["vf.ref.llcp_ref decodes I/RR/RNR/CONNECT/CC as LLCP 1.3 section 4 defines them",
               "vf.ref.window_model is a faithful reading of the LLCP 1.3 sliding window rules (N(S) from 0, "
               "N(R) acknowledges, at most RW(receiver) unacknowledged I PDUs)",
               "link turns strictly alternate (initiator first) as NFC-DEP forces them to; the MAC below the LLC "
               "is loss free (C04 covers the MAC)",
               "thread schedules are sampled with random yields, not enumerated to a preemption bound",
               "a thread that gives the connection's lock up again right after Condition.wait() returned (GateCond) is "
               "indistinguishable from a notified thread that has not been scheduled yet",
               "after close() on either end only the prefix/exactly-once part of the delivery oracle applies, plus: what "
               "the closing end transmitted before its DISC reaches the peer's application",
               "a blocking send() returns only after its I PDU was handed to the link (so 'all senders returned' means "
               "nothing accepted is still queued)",
               "lost wake-ups are recognised through CPython's threading.Condition waiter registration"]
REQUIRED = ["pdu_I", "pdu_RR", "pdu_RNR", "ns_wraps", "window_full_events", "rnr_episodes", "histories_enumerated",
            "walks", "recv_compared", "quiescence_equal_checked", "emsgsize_checked", "threaded_runs_completed",
            "threaded_messages_delivered", "thread_switches", "pdu_len_contract", "acks_polls_true",
            "acks_polls_true_after_wrap", "multi_sender_runs_completed", "gated_scenarios_completed",
            "gate_window_forced", "woken_window_full_again",
            # close class
            "close_drain_checked", "close_drain_pending_at_disc", "i_pdu_transmitted_after_close_call",
            "gated_close_scenarios_completed", "gated_close_blocked_calls_returned", "gated_close_drain_checked",
            "thr_close_runs_completed",
            # several data link connections on one link
            "pdu_on_extra_connection", "aggregates_with_foreign_pdu", "quiescence_equal_checked_multi",
            "quiescence_equal_checked_beside_closed_connection",
            # bounded-exhaustive macro part: window full across the 15 -> 0 wrap, refusal there, MIU boundary
            "ex2_histories_enumerated", "ex2_window_full_across_wrap", "ex2_send_wouldblock_window_across_wrap",
            "ex2_emsgsize_checked_at_miu_plus_1", "ex2_send_accepted_exactly_miu", "ex2_pdu_on_extra_connection",
            "ex2_close_drain_checked",
            # per monitor: the threaded and the forced-schedule monitors must have seen traffic of their own
            "thr_pdu_I", "thr_ns_wraps", "gated_pdu_I", "stall_checks_armed", "lost_checks_evaluated",
            "thr_woken_window_full_again"]

EX_CONFIGS = [  # bounded-exhaustive configurations: RW(A), RW(B), aggregation, early (accepting end acts before the CC left)
    {"rw": [1, 1], "agf": 0, "early": 0}, {"rw": [1, 1], "agf": 1, "early": 0},
    {"rw": [2, 1], "agf": 0, "early": 0}, {"rw": [1, 2], "agf": 1, "early": 0},
    {"rw": [2, 2], "agf": 0, "early": 0}, {"rw": [2, 2], "agf": 1, "early": 0},
    {"rw": [0, 1], "agf": 0, "early": 0}, {"rw": [3, 1], "agf": 1, "early": 0},
    {"rw": [1, 3], "agf": 0, "early": 0}, {"rw": [15, 2], "agf": 1, "early": 0},
    {"rw": [1, 1], "agf": 0, "early": 1}, {"rw": [2, 2], "agf": 1, "early": 2},
]
ALPHA_EARLY = ["T", "sB", "rB", "bB", "sA", "rA", "J"]     # early configurations: B accepts, A connects
ALPHA_FULL = ["T", "sA", "sB", "rA", "rB", "bA", "bB", "cA", "cB"]
ALPHA_QUICK = ["T", "sA", "sB", "rA", "rB", "bB", "cA"]
ALPHA_DEEP = ["T", "sA", "sB", "rA", "rB", "bB"]
# second bounded-exhaustive part: macro operations (S = send x RW, m = send(MIU), o = send(MIU + 1), R = recv x k,
# Q = link turns until quiet), busy on A and close by B, configurations with B connecting, a connection MIU different
# from the link MIU, N(S) positions 8..15 at the start of the history ("pre" messages per direction delivered and
# acknowledged during set-up) and two or three data link connections on the link (symbol suffix = connection index)
A_MACRO = ["T", "Q", "SA", "SB", "RA", "RB", "sA", "mA", "oA", "bA", "cB"]
A_MACRO_B = ["T", "Q", "SA", "SB", "RA", "RB", "sB", "mB", "oB", "bB", "bA", "cA", "cB"]
A_MACRO_Q = ["Q", "SA", "SB", "RB", "sA", "mA", "oA", "bA", "cB"]
A_MACRO_BQ = ["Q", "SA", "SB", "RA", "sB", "mB", "oB", "bA", "cB"]
A_MULTI = ["T", "sA", "sB", "sA1", "sB1", "rA", "rB", "rA1", "rB1", "cA", "cB1"]
A_MULTI_Q = ["T", "sA", "sB1", "sA1", "rB", "rA1", "rB1", "cA", "cB1"]
A_MULTI3 = ["Q", "T", "SA", "SA1", "SB2", "SA2", "RB", "RB1", "RA2", "RB2", "cA1", "cB", "bB1"]
C40A = {"sap": 40, "client": "A"}
EX2_CONFIGS = [   # (configuration, alphabet and depth: quick, thorough)
    ({"rw": [2, 2], "agf": 0, "pre": 14, "client": "B", "rcv_miu": [140, None]}, A_MACRO_Q, 3, A_MACRO, 5),
    ({"rw": [15, 15], "agf": 1, "pre": 8}, A_MACRO_Q, 3, A_MACRO, 5),
    ({"rw": [3, 1], "agf": 1, "pre": 13, "client": "B", "rcv_miu": [200, 129]}, A_MACRO_BQ, 3, A_MACRO_B, 5),
    ({"rw": [1, 1], "agf": 1, "conns": [dict(C40A, rw=[1, 1])]}, A_MULTI_Q, 4, A_MULTI, 6),
    ({"rw": [2, 2], "agf": 0, "conns": [dict(C40A, rw=[1, 2])]}, A_MULTI_Q, 4, A_MULTI, 6),
    ({"rw": [2, 1], "agf": 1, "conns": [dict(C40A, rw=[1, 1]), {"sap": 41, "client": "B", "rw": [2, 2]}]}, A_MULTI3, 3, A_MULTI3, 5),
    ({"rw": [1, 1], "agf": 0, "pre": 15, "client": "B"}, A_MACRO_BQ, 3, A_MACRO_B, 5),
    ({"rw": [2, 3], "agf": 1, "pre": 14, "link_miu": [2175, 2175], "rcv_miu": [128, 300]}, A_MACRO_Q, 3, A_MACRO, 5),
    ({"rw": [15, 2], "agf": 0, "pre": 9}, A_MACRO_Q, 3, A_MACRO, 5),
    ({"rw": [2, 1], "agf": 1, "pre": 15, "conns": [{"sap": 41, "client": "B", "rw": [1, 2], "rcv_miu": [129, None]}]}, A_MULTI_Q, 3, A_MULTI, 5),
    ({"rw": [0, 2], "agf": 0, "pre": 15, "client": "B"}, A_MACRO_Q, 3, A_MACRO, 5),
    ({"rw": [1, 15], "agf": 1, "pre": 15, "client": "B", "link_miu": [1000, 248], "rcv_miu": [129, 1000]}, A_MACRO_BQ, 3, A_MACRO_B, 5),
]


def plan(tier, seed):
    out = []
    for i in range(12):
        ex = dict(EX_CONFIGS[i])
        ex2, aq, dq, at, dt = EX2_CONFIGS[i]
        d = {"kind": "lockstep", "ex": ex, "invariants": i % 2, "ex2": dict(ex2), "ex2_alphabet": aq if tier == "quick" else at}
        if tier == "quick":
            d.update(depth=6, alphabet=ALPHA_QUICK, walks=70, steps=2000, timeout=600, ex2_depth=dq)
            if ex["early"]:
                d.update(depth=5, alphabet=ALPHA_EARLY)
        else:
            d.update(depth=6, alphabet=ALPHA_FULL, walks=400, steps=5000, timeout=3000, ex2_depth=dt)
            if ex["early"]:
                d.update(depth=6, alphabet=ALPHA_EARLY)
            else:
                d.update(depth2=8, alphabet2=ALPHA_DEEP)
        out.append(d)
    for i in range(4):
        d = {"kind": "threaded", "greet_run": 1, "multi_runs": [2, 3, 5], "gated": 40 if tier == "quick" else 400,
             "gated_close": 30 if tier == "quick" else 300}
        if tier == "quick":
            d.update(runs=6, close_runs=2, n_lo=50, n_hi=220, budget=25, timeout=600)
        else:
            d.update(runs=40, close_runs=12, n_lo=50, n_hi=500, budget=300, timeout=3000)
        out.append(d)
    return out


# ---------------------------------------------------------------------------------------------------------------
class Violation(Exception):
    def __init__(self, sig, what):
        Exception.__init__(self, sig, what)
        self.sig, self.what = sig, what


class Inconclusive(Exception):
    pass


def other(e):
    return "B" if e == "A" else "A"


def make_msg(end, ctr, n):
    """message with a unique id (end, counter) in its first 5 bytes; shorter ones repeat the counter's low byte"""
    if n >= 5:
        return end.encode() + ctr.to_bytes(4, "big") + bytes((ctr + i) & 255 for i in range(n - 5))
    return bytes([ctr & 255]) * n


def errname(e):
    return errno.errorcode.get(getattr(e, "errno", None), str(getattr(e, "errno", "?")))


class Stats(dict):
    def inc(self, k, n=1):
        self[k] = self.get(k, 0) + n

    def mx(self, k, v):
        if v > self.get(k, -1):
            self[k] = v


class PumpCond:
    """stands in for a socket's receive Condition while connect()/close() run in the (only) driving thread:
    an untimed wait() lets the harness turn the link instead of blocking; everything else is the real object"""

    def __init__(self, real, pump):
        self._real, self._pump = real, pump

    def __enter__(self):
        return self._real.__enter__()

    def __exit__(self, *a):
        return self._real.__exit__(*a)

    def wait(self, timeout=None):
        if timeout is None:
            self._pump()
            return True
        return self._real.wait(timeout)

    def __getattr__(self, name):
        return getattr(self._real, name)


def thread_blocked(th):
    """True when the thread's innermost Python frame is threading.Condition.wait (it registered as a waiter)"""
    f = sys._current_frames().get(th.ident)
    return (f is not None and f.f_code.co_name == "wait" and f.f_code.co_filename.endswith("threading.py")
            and "waiter" in f.f_locals)


class _WouldBlock(Exception):
    """raised by the harness's stand-in Condition instead of blocking the (only) driving thread"""


def steer(obj, name):
    """nfcpy-internal / CPython-internal attribute that the harness uses only to steer a schedule (never to judge):
    if it is not there the harness cannot run the case -> Inconclusive, never a verdict about nfcpy"""
    try:
        return getattr(obj, name)
    except AttributeError:
        raise Inconclusive("steering attribute %s.%s is not available" % (type(obj).__name__, name))


def steering_fault(e):
    """True for an AttributeError/KeyError that comes from the harness's own steering (innermost frame in /verif or in
    CPython's threading module, or raised on one of the delegating Condition stand-ins), not from nfcpy's code"""
    if not isinstance(e, (AttributeError, KeyError)):
        return False
    if isinstance(getattr(e, "obj", None), (PumpCond, GateCond)):
        return True
    tb, last = e.__traceback__, None
    while tb is not None:
        tb, last = tb.tb_next, tb
    if last is None:
        return False
    fn = last.tb_frame.f_code.co_filename
    if fn.endswith("threading.py") or "/vf/" in fn:
        return True
    return False


def not_steering(e):
    """gate in front of every escape/* verdict"""
    if steering_fault(e):
        raise Inconclusive("harness steering failed (%s: %s): nfcpy / CPython internals differ from what the harness "
                           "expects" % (type(e).__name__, e))


ARITY = {"s": 3, "r": 2, "b": 3, "p": 3, "c": 2, "S": 2, "R": 2}


class Conn:
    """harness-side record of ONE data link connection of the pair: its own reference window model (keyed on the wire
    by the SAP pair), its own accepted / delivered lists"""

    def __init__(self, idx, spec):
        self.idx, self.spec = idx, spec
        self.model = WindowModel()
        self.key = None                                   # (SAP at A, SAP at B), known when the CONNECT is on the wire
        self.client, self.server = spec["client"], other(spec["client"])
        self.sock = {"A": None, "B": None}
        self.sent = {"A": [], "B": []}
        self.rcvd = {"A": [], "B": []}
        self.ctr = {"A": 0, "B": 0}
        self.tag = {"A": chr(65 + 2 * idx), "B": chr(66 + 2 * idx)}      # first octet of every message of that sender
        self.closed = {"A": False, "B": False}
        self.any_close = False
        self.refused = set()
        self.ann_busy = {"A": False, "B": False}
        self.acks_polled = {"A": 0, "B": 0}               # poll("acks") calls that returned True, per end
        self.wire_i = {"A": 0, "B": 0}                    # I PDUs of that sender on the wire while the connection was open
        self.pending_at_disc = {"A": 0, "B": 0}
        self.disc_seen = {"A": False, "B": False}
        self.i_seen = self.compared = 0


class Exec:
    """executes one lock-step history against two real LLCs and evaluates the oracles online.
    cfg["conns"] adds further data link connections on the same link (same or another listening SAP, either end
    connecting); an operation names its connection by a trailing index (none = connection 0)"""

    def __init__(self, cfg, st):
        import nfc.llcp
        import nfc.llcp.pdu as P
        from vf.sim.llcpair import LockstepPair
        self.nfc, self.P, self.cfg, self.st = nfc, P, cfg, st
        self.DONTWAIT = nfc.llcp.MSG_DONTWAIT
        lm, agf = cfg.get("link_miu", [248, 248]), cfg.get("agf", [1, 1])
        self.lp = LockstepPair({"miu": lm[0], "agf": bool(agf[0])}, {"miu": lm[1], "agf": bool(agf[1])})
        self.lp.keep_wire = False
        if not (self.lp.ok_a and self.lp.ok_b):
            raise Inconclusive("LLC activation failed")
        base = {"sap": 40, "client": cfg.get("client", "A"), "rw": cfg["rw"], "rcv_miu": cfg.get("rcv_miu", [None, None])}
        self.conns = [Conn(0, base)]
        self.by_key = {}
        self.pending = None              # connection whose CONNECT is expected on the wire next
        self.listeners = {}              # (end, sap) -> listening socket
        self.next_turn = "A"
        self.last_leaves = []
        self.prev_symm = False
        self.held = None
        self.cc_delivered = False
        self.ctx = ""                # structural context appended to the signature of a later violation
        self.helper = None           # (end, thread, result) of a connect() still blocked (early mode)
        self.trace = []
        self.connect_done = False
        self._connect(self.conns[0], cfg.get("early", 0))
        if not cfg.get("early"):
            for spec in cfg.get("conns", ()):
                c = Conn(len(self.conns), spec)
                self.conns.append(c)
                self._connect(c, 0)
            if cfg.get("pre"):
                self._preload(cfg["pre"])

    # single-connection views (witness samples, evidence)
    sent = property(lambda self: self.conns[0].sent)
    rcvd = property(lambda self: self.conns[0].rcvd)
    model = property(lambda self: self.conns[0].model)
    i_seen = property(lambda self: sum(c.i_seen for c in self.conns))
    compared = property(lambda self: sum(c.compared for c in self.conns))
    client = property(lambda self: self.conns[0].client)

    # -- set-up -------------------------------------------------------------------------------------------
    def _opts(self, sock, spec, i):
        L = self.nfc.llcp
        m = spec.get("rcv_miu", [None, None])[i]
        if m is not None:
            sock.setsockopt(L.SO_RCVMIU, m)
        got = sock.setsockopt(L.SO_RCVBUF, spec["rw"][i])
        if got != spec["rw"][i]:
            raise Inconclusive("socket API does not accept RW=%r (got %r)" % (spec["rw"][i], got))

    def _listener(self, end, spec):
        L = self.nfc.llcp
        key = (end, spec["sap"])
        if key not in self.listeners:
            srv = L.Socket(self.lp.llc(end), L.DATA_LINK_CONNECTION)
            self._opts(srv, spec, "AB".index(end))
            srv.bind(spec["sap"])
            srv.listen(1)
            self.listeners[key] = srv
        return self.listeners[key]

    def _connect(self, conn, early):
        L = self.nfc.llcp
        c, s, spec = conn.client, conn.server, conn.spec
        srv = self._listener(s, spec)
        cli = L.Socket(self.lp.llc(c), L.DATA_LINK_CONNECTION)
        self._opts(cli, spec, "AB".index(c))
        self.srv = srv
        self.pending = conn

        def accept_when_ready():
            if conn.sock[s] is None and any(x["t"] == "CONNECT" for x in self.last_leaves):
                conn.sock[s] = srv.accept()

        if early:
            res = {}

            def run():
                try:
                    cli.connect(spec["sap"])
                    res["ok"] = True
                except BaseException as e:
                    res["exc"] = e
            th = threading.Thread(target=run, daemon=True)
            th.start()
            self._wait_blocked(th)
            self.helper = (c, th, res)
            conn.sock[c] = cli
            if early == 2:
                # "the thread inside connect() is not scheduled before step J": the driving thread keeps the socket's
                # (re-entrant) lock, so the woken connect() cannot leave its wait; link turns run in the driving thread
                self.held = steer(steer(cli, "_tco"), "lock")
                self.held.acquire()
            for _ in range(4):
                self.turn()
                accept_when_ready()
                if conn.sock[s] is not None:
                    break
            else:
                raise Inconclusive("CONNECT did not reach the listening socket")
            return

        def pump():
            for _ in range(8):
                self.turn()
                accept_when_ready()
                if self.last_dir == s and any(x["t"] in ("CC", "DM") and self._conn_of(s, x) is conn for x in self.last_leaves):
                    return
        tco = steer(cli, "_tco")
        real = steer(tco, "recv_ready")
        tco.recv_ready = PumpCond(real, pump)
        try:
            cli.connect(spec["sap"])
        except Violation:
            raise
        except L.Error as e:
            raise Violation("api/connect/unexpected-%s" % errname(e), "connect() of connection #%d raised %r" % (conn.idx, e))
        except Exception as e:
            not_steering(e)
            raise Violation("escape/connect/%s" % exc_sig(e), "connect() of connection #%d raised %r" % (conn.idx, e))
        finally:
            tco.recv_ready = real
        conn.sock[c] = cli
        self.connect_done = True
        if conn.sock[s] is None:
            raise Inconclusive("connect() returned without an accepted socket")

    def _preload(self, n):
        """configuration dimension 'N(S) position': n messages per direction and connection are sent, delivered and
        acknowledged before the history starts, so that short histories run across the modulo-16 wrap"""
        pingpong = all(c.model.rw.get(e, 0) >= 1 for c in self.conns for e in "AB")
        small = any(c.model.rw.get(e, 0) < 2 for c in self.conns for e in "AB")
        for i in range(n):
            for c in self.conns:
                for x in "AB":
                    if c.model.rw.get(other(x), 0) >= 1:
                        self.op_s(c, x, 8)
            if pingpong and i < n - 1:
                # every message is answered by one in the other direction, which carries the acknowledgement
                for _ in range(2 * len(self.conns)):
                    self.turn()
                for c in self.conns:
                    for x in "AB":
                        self.op_r(c, x)
                if small:               # a window of one re-opens only with the RR that follows the recv()
                    for _ in range(2 * len(self.conns)):
                        self.turn()
            else:
                self.drain()
        for c in self.conns:
            for x in "AB":
                if c.model.rw.get(other(x), 0) >= 1 and (len(c.rcvd[other(x)]) != n or c.model.acked[x] != n):
                    raise Inconclusive("preload did not complete")
        self.st.inc("preloaded_histories")

    def _wait_blocked(self, th, limit=20000):
        for _ in range(limit):
            if not th.is_alive() or thread_blocked(th):
                return
            time.sleep(0)
        raise Inconclusive("helper thread neither blocked nor finished")

    def usable(self, c, end):
        if c.sock[end] is None or c.closed[end]:
            return False
        return not (self.helper and self.helper[0] == end and c.idx == 0)

    # -- link ---------------------------------------------------------------------------------------------
    def turn(self):
        P, st = self.P, self.st
        x = self.next_turn
        y = other(x)
        self.next_turn = y
        self.last_dir, self.last_leaves = x, []
        src, dst = self.lp.llc(x), self.lp.llc(y)
        after = "/after-close" if any(c.closed[x] for c in self.conns) else ""
        try:
            p = src.collect()
        except Exception as e:
            not_steering(e)
            raise Violation("escape/collect/%s%s" % (exc_sig(e), after), "collect() raised %r" % e)
        if p is None:
            st.inc("symm_turns")
            return False
        try:
            enc = P.encode(p)
        except Exception as e:
            names = []
            for q in (list(p) if p.name == "AGF" else [p]):
                try:
                    P.encode(q)
                except Exception:
                    names.append(q.name)
            raise Violation("escape/encode/%s/%s%s" % (exc_sig(e), "+".join(sorted(set(names))) or p.name, after),
                            "the PDU collected for transmission cannot be encoded: %r (%s)" % (e, str(p)[:80]))
        st.inc("link_turns")
        try:
            leaves = ref.flatten(ref.decode(enc))
        except ref.Reject as e:
            raise Violation("wire/undecodable", "reference decoder rejects a transmitted frame: %s" % e)
        if len(leaves) > 1:
            st.inc("aggregated_frames")
            if len(self.conns) > 1 and len(set((d.get("dsap"), d.get("ssap")) for d in leaves)) > 1:
                st.inc("aggregates_with_foreign_pdu")
        self.last_leaves = leaves
        for d in leaves:
            self.observe(x, d)
            if self.helper and self.helper[0] == y:
                if d["t"] in ("CC", "DM"):
                    self.cc_delivered = True
                elif d["t"] == "I" and self.cc_delivered:
                    # an I PDU reaches the connecting end after the CC, but its connect() has not returned yet
                    self.ctx = "/i-after-cc-before-connect-returned"
        try:
            dst.dispatch(P.decode(enc))
        except Exception as e:
            not_steering(e)
            raise Violation("escape/dispatch/%s" % exc_sig(e), "dispatch() raised %r" % e)
        if self.helper and self.helper[0] == y and self.cc_delivered and self.held is None:
            self.join_connect()
        return True

    def join_connect(self):
        end, th, res = self.helper
        if self.held is not None:
            self.held.release()
            self.held = None
        th.join(20)
        if th.is_alive():
            raise Inconclusive("connect() did not return after the CC was delivered")
        self.helper = None
        self.connect_done = True
        if "exc" in res:
            not_steering(res["exc"])
            raise Violation("escape/connect/%s" % exc_sig(res["exc"]), "connect() raised %r" % res["exc"])

    def op_J(self, end):
        """(early=2) the thread inside connect() gets to run now"""
        if not (self.helper and self.cc_delivered):
            return True
        self.join_connect()
        return False

    def op_Q(self):
        """macro: the link turns until nothing moves any more (two empty turns in a row), bounded"""
        moved = quiet = 0
        for _ in range(64):
            if self.turn():
                moved, quiet = moved + 1, 0
            else:
                quiet += 1
                if quiet >= 2:
                    break
        self.prev_symm = quiet >= 1
        return moved == 0

    def _conn_of(self, x, d):
        """connection a leaf PDU transmitted by end x belongs to: by its SAP pair"""
        if "dsap" not in d:
            return None
        key = (d["ssap"], d["dsap"]) if x == "A" else (d["dsap"], d["ssap"])
        c = self.by_key.get(key)
        if c is None and d["t"] == "CONNECT" and self.pending is not None and x == self.pending.client:
            c, self.pending = self.pending, None
            c.key = key
            self.by_key[key] = c
        return c

    def observe(self, x, d):
        st, t = self.st, d["t"]
        st.inc("pdu_" + t)
        c = self._conn_of(x, d)
        if c is None:
            st.inc("pdu_unrouted")
            st.inc("pdu_unrouted_" + t)
            return
        m = c.model
        if c.idx:
            st.inc("pdu_on_extra_connection")
        if t == "RNR":
            if not c.ann_busy[x]:
                st.inc("rnr_episodes")
            c.ann_busy[x] = True
        elif t == "RR":
            c.ann_busy[x] = False
        elif t == "I":
            c.i_seen += 1
            if d["data"] in c.refused:
                raise Violation("miu/refused-message-transmitted" if len(d["data"]) > m.miu.get(other(x), 1 << 30)
                                else "window/refused-message-transmitted",
                                "a message send() refused is on the wire (%d bytes)" % len(d["data"]))
            if m.established and not m.closed:
                c.wire_i[x] += 1
                if c.closed[x]:
                    st.inc("i_pdu_transmitted_after_close_call")
        elif t == "DISC" and not c.disc_seen[x]:
            c.disc_seen[x] = True
            c.pending_at_disc[x] = c.wire_i[x] - len(c.rcvd[other(x)])
        wraps, full = m.wraps, m.full
        bad = m.feed(x, d)
        st.inc("ns_wraps", m.wraps - wraps)
        st.inc("window_full_events", m.full - full)
        if t == "I":
            st.mx("max_outstanding", m.outstanding(x))
            if m.full != full and m.vs[x] < m.va[x]:
                st.inc("window_full_across_wrap")       # the full window contains the 15 -> 0 step
            if m.rw.get(other(x)) == 15 and m.outstanding(x) == 15:
                st.inc("window_full_at_rw15")
            if m.miu.get(other(x)) == len(d["data"]):
                st.inc("i_pdu_of_exactly_miu")
        if bad:
            clause, detail = bad[0]
            if clause == "pdu-before-cc":
                clause += "/" + t
            raise Violation("window/" + clause, "%s>%s %s: %s (RW announced A=%s B=%s%s)" % (
                x, other(x), t, detail, m.rw.get("A"), m.rw.get("B"), ", connection #%d" % c.idx if c.idx else ""))

    # -- application operations ---------------------------------------------------------------------------
    def do(self, op):
        """returns True when the operation was a no-op (refused / nothing to do)"""
        k = op[0]
        if k == "T":
            symm = not self.turn()
            noop = symm and self.prev_symm       # two empty turns in a row: same state, same side to move
            self.prev_symm = symm
            return noop
        if k == "Q":
            return self.op_Q()
        self.prev_symm = False
        if k == "J":
            return self.op_J(self.client)
        end, n = op[1], ARITY[k]
        ci = op[n] if len(op) > n else 0
        if ci >= len(self.conns):
            return True
        c = self.conns[ci]
        if not self.usable(c, end):
            return True
        return getattr(self, "op_" + k)(c, end, *op[2:n])

    def _api_error(self, c, call, e):
        """an nfc.llcp.Error other than the ones the property talks about: only acceptable once close() was called"""
        if isinstance(e, self.nfc.llcp.Error):
            if c.any_close:
                self.st.inc("errors_after_close")
                return True
            raise Violation("api/%s/unexpected-%s" % (call, errname(e)),
                            "%s raised %r on a connection nobody closed" % (call, e))
        not_steering(e)
        raise Violation("escape/%s/%s%s" % (call, exc_sig(e), "/after-close" if c.any_close else ""),
                        "%s raised %r" % (call, e))

    def op_s(self, c, end, n):
        st, m, L = self.st, c.model, self.nfc.llcp
        peer = other(end)
        if peer not in m.miu or peer not in m.rw:
            return True                   # connection set-up not complete on the wire
        miu = m.miu[peer]
        if n == "M":
            n = miu
        elif n == "M+1":
            n = miu + 1
        msg = make_msg(c.tag[end], c.ctr[end], n)
        c.ctr[end] += 1
        unacked = len(c.sent[end]) - m.acked[end]
        try:
            ok = c.sock[end].send(msg, self.DONTWAIT)
        except L.Error as e:
            if n >= 5:
                c.refused.add(msg)
            if e.errno == errno.EMSGSIZE:
                if n <= miu:
                    raise Violation("miu/refused-within-miu", "send(%d bytes) -> EMSGSIZE, peer announced MIU %d" % (n, miu))
                st.inc("emsgsize_checked")
                st.inc("emsgsize_checked_at_miu_plus_1", int(n == miu + 1))
                return True
            if e.errno == errno.EWOULDBLOCK:
                if n > miu:
                    st.inc("oversize_refused_wouldblock")
                elif unacked < m.rw[peer] and not c.any_close:
                    if c.ann_busy[peer]:
                        # the peer's last RR/RNR on the wire says "busy": a sender that honours RNR holds back
                        st.inc("send_refused_while_peer_busy")
                    else:
                        raise Violation("window/send-refused-while-open",
                                        "send() -> EWOULDBLOCK with %d of RW(%s)=%d accepted messages unacknowledged on "
                                        "the wire" % (unacked, peer, m.rw[peer]))
                st.inc("send_wouldblock")
                if m.vs[end] < m.va[end]:
                    st.inc("send_wouldblock_window_across_wrap")
                return True
            return self._api_error(c, "send", e)
        except Exception as e:
            return self._api_error(c, "send", e)
        if ok is True:
            if n > miu:
                raise Violation("miu/oversize-accepted", "send(%d bytes) accepted, peer announced MIU %d" % (n, miu))
            c.sent[end].append(msg)
            st.inc("send_accepted")
            st.inc("send_accepted_exactly_miu", int(n == miu))
            st.mx("max_msg_len", n)
            return False
        if n >= 5:
            c.refused.add(msg)
        if not c.any_close:
            raise Violation("api/send/returned-%r-without-close" % ok, "send() returned %r" % ok)
        return True

    def op_S(self, c, end):
        """macro: fill the window - RW(peer) sends of 8 octets (stops at the first refusal)"""
        noop = True
        for _ in range(max(1, c.model.rw.get(other(end), 1))):
            if self.op_s(c, end, 8):
                break
            noop = False
        return noop

    def op_r(self, c, end):
        try:
            ready = c.sock[end].poll("recv", 0)
        except Exception as e:
            return self._api_error(c, "poll", e)
        if not ready:
            return True
        try:
            msg = c.sock[end].recv()
        except Exception as e:
            return self._api_error(c, "recv", e)
        self.check_recv(c, end, msg)
        return False

    def op_R(self, c, end):
        """macro: recv() as long as poll('recv', 0) says there is something"""
        noop = True
        for _ in range(16):
            if self.op_r(c, end):
                break
            noop = False
        return noop

    def check_recv(self, c, end, msg):
        got, acc = c.rcvd[end], c.sent[other(end)]
        d = "%s>%s" % (other(end), end)
        if not isinstance(msg, (bytes, bytearray)):
            if msg is None and c.any_close:
                return
            raise Violation("deliver/recv-returned-%s" % type(msg).__name__, "%s recv() after poll('recv')=True returned %r" % (d, msg))
        msg = bytes(msg)
        k = len(got)
        self.st.inc("recv_compared")
        c.compared += 1
        if k < len(acc) and acc[k] == msg:
            got.append(msg)
            return
        if len(msg) >= 5 and msg in acc[:k]:
            raise Violation("deliver/duplicate", "%s message #%d delivered again as #%d" % (d, acc.index(msg), k))
        if msg in acc[k + 1:]:
            raise Violation("deliver/lost-or-reordered", "%s recv #%d returned accepted message #%d" % (d, k, acc.index(msg, k + 1)))
        for o in self.conns:
            if o is not c and (msg in o.sent["A"] or msg in o.sent["B"]) and len(msg) >= 5:
                raise Violation("deliver/message-of-another-connection", "%s recv #%d on connection #%d returned a message "
                                "accepted on connection #%d" % (d, k, c.idx, o.idx))
        raise Violation("deliver/never-accepted", "%s recv #%d returned %d bytes no send() accepted at that position" % (d, k, len(msg)))

    def op_b(self, c, end, v):
        try:
            c.sock[end].setsockopt(self.nfc.llcp.SO_RCVBSY, bool(v))
            self.st.inc("busy_set" if v else "busy_cleared")
        except Exception as e:
            return self._api_error(c, "setsockopt", e)
        return False

    def op_p(self, c, end, ev):
        try:
            r = c.sock[end].poll(ev, 0)
            self.st.inc("polls")
        except Exception as e:
            return self._api_error(c, "poll", e)
        if ev == "acks":
            self.check_acks_poll(c, end, r)
        return False

    def check_acks_poll(self, c, end, r):
        """poll("acks") is documented to return True iff the counter of received acknowledgements is > 0 and
        then to decrement it: between link turns that counter is exactly (I PDUs of this end acknowledged by N(R)
        values on the wire, per the reference window model) - (polls that returned True)"""
        m, st = c.model, self.st
        if not m.established or m.closed or c.any_close:
            return
        avail = m.acked[end] - c.acks_polled[end]
        st.inc("acks_polls_judged")
        if r is True:
            c.acks_polled[end] += 1
            st.inc("acks_polls_true")
            if m.acked[end] > 16:
                st.inc("acks_polls_true_after_wrap")
        if avail > 0 and r is not True:
            raise Violation("acks/poll-false-with-acknowledgements-pending" + ("/after-wrap" if m.sent[end] >= 16 else ""),
                            "poll('acks') -> %r at %s with %d acknowledged on the wire and %d consumed" % (
                                r, end, m.acked[end], c.acks_polled[end]))
        if avail <= 0 and r is True:
            raise Violation("acks/poll-true-without-acknowledgement",
                            "poll('acks') -> True at %s with %d acknowledged on the wire and %d consumed before" % (
                                end, m.acked[end], c.acks_polled[end] - 1))

    def op_c(self, c, end):
        """close(): its wait for the DM turns the link (bounded); returns when close() returns"""
        sock = c.sock[end]
        c.closed[end] = c.any_close = True
        self.st.inc("closes")
        self.st.inc("closes_with_other_connections_open", int(any(not o.any_close for o in self.conns if o is not c)))

        def pump():
            # everything close() found queued goes out in front of the DISC: at most RW I PDUs, one link turn each
            for _ in range(44):
                self.turn()
                if self.last_dir == other(end) and any(d["t"] == "DM" and self._conn_of(other(end), d) is c for d in self.last_leaves):
                    return
            self.st.inc("close_without_dm")
        tco = steer(sock, "_tco")
        real = steer(tco, "recv_ready")
        tco.recv_ready = PumpCond(real, pump)
        try:
            sock.close()
        except Violation:
            raise
        except Exception as e:
            return self._api_error(c, "close", e)
        finally:
            tco.recv_ready = real
        return False

    # -- quiescence -----------------------------------------------------------------------------------------
    def drain(self):
        quiet = 0
        for _ in range(400):
            moved = self.turn()
            moved = self.turn() or moved
            if self.helper and self.cc_delivered:
                self.join_connect()
                moved = True
            for c in self.conns:
                for end in "AB":
                    if self.usable(c, end):
                        while not self.op_r(c, end):
                            moved = True
            quiet = 0 if moved else quiet + 1
            if quiet >= 1 and not self.helper:       # a round without any PDU or recv() leaves the state unchanged
                return
        raise Inconclusive("link not quiescent after 400 rounds without application sends")

    def recv_to_the_end(self, c, y):
        """the peer of y has closed and poll('recv') has nothing more: recv() is called until it returns None or
        raises (it consumes the queued disconnect indication); the call never blocks the driving thread"""
        def would_block():
            raise _WouldBlock()
        st = self.st
        for _ in range(20):
            tco = steer(c.sock[y], "_tco")
            real = steer(tco, "recv_ready")
            tco.recv_ready = PumpCond(real, would_block)
            try:
                msg = c.sock[y].recv()
            except _WouldBlock:
                st.inc("close_drain_recv_would_block")
                return
            except self.nfc.llcp.Error:
                st.inc("close_drain_recv_error")
                return
            except Exception as e:
                self._api_error(c, "recv", e)
                return
            finally:
                tco.recv_ready = real
            if msg is None:
                st.inc("close_drain_recv_none")
                continue                    # the next call raises (connection shut down) or would block
            st.inc("close_drain_recv_after_poll_false")
            self.check_recv(c, y, msg)

    def check_closed(self, c):
        """close class: end x called close(), y did not.  Every I PDU of x that the wire carried while the connection
        was open (before the DISC) was accepted by send() and transmitted: y's application must get it by calling
        recv() until that returns None / raises.  What was still queued when close() was called may be dropped (nfcpy
        transmits it in front of the DISC: then it counts as transmitted)."""
        st = self.st
        for x in "AB":
            y = other(x)
            if not (c.closed[x] and not c.closed[y] and c.sock[y] is not None) or (self.helper and c.idx == 0):
                continue
            self.recv_to_the_end(c, y)
            st.inc("close_drain_checked")
            st.inc("close_drain_pending_at_disc", int(c.pending_at_disc[x] > 0))
            st.inc("close_drain_messages", len(c.rcvd[y]))
            if len(c.rcvd[y]) < c.wire_i[x]:
                raise Violation("deliver/lost-after-peer-close",
                                "%s>%s: %s called close(); %d I PDUs were on the wire before the DISC (%d accepted by "
                                "send()), the peer's recv() returned only %d until it reported the end" % (
                                    x, y, x, c.wire_i[x], len(c.sent[x]), len(c.rcvd[y])))

    def finish(self, probe=True):
        st = self.st
        for c in self.conns:
            for end in "AB":
                if self.usable(c, end):
                    self.op_b(c, end, 0)
        self.drain()
        open_conns = []
        for c in self.conns:
            if c.any_close:
                self.check_closed(c)
                st.inc("quiescence_prefix_only")
            else:
                open_conns.append(c)
        for rnd in (0, 1):
            for c in open_conns:
                for x in "AB":
                    if c.rcvd[other(x)] != c.sent[x]:
                        raise Violation("deliver/lost-at-quiescence", "%s>%s: %d accepted, %d delivered after draining%s" % (
                            x, other(x), len(c.sent[x]), len(c.rcvd[other(x)]),
                            " (connection #%d of %d)" % (c.idx, len(self.conns)) if len(self.conns) > 1 else ""))
                st.inc("quiescence_equal_checked")
                if len(self.conns) > 1:
                    st.inc("quiescence_equal_checked_multi")
                    if any(o.any_close for o in self.conns):
                        st.inc("quiescence_equal_checked_beside_closed_connection")
            if not probe or not open_conns:
                return
            if rnd == 0:        # everything is acknowledged now: one more message per direction must get through
                for c in open_conns:
                    for x in "AB":
                        if c.model.rw.get(other(x), 0) >= 1 and self.usable(c, x):
                            self.op_s(c, x, 9)
                self.drain()

    def cleanup(self):
        if self.held is not None:
            try:
                self.held.release()
            except Exception:
                pass
            self.held = None
        if self.helper:
            try:
                tco = self.helper and self.conns[0].sock[self.helper[0]]._tco
                with tco.lock:
                    tco.recv_ready.notify_all()
            except Exception:
                pass


def run_history(cfg, ops, st, prune=False):
    """-> (index of first no-op step or None, Exec); raises Violation / Inconclusive"""
    try:
        return _run_history(cfg, ops, st, prune)
    except (AttributeError, KeyError) as e:
        if steering_fault(e):           # the harness's own steering failed: says nothing about nfcpy
            raise Inconclusive("harness steering failed (%s: %s)" % (type(e).__name__, e))
        raise


def _run_history(cfg, ops, st, prune):
    ex = Exec(cfg, st)
    try:
        cut = None
        for i, op in enumerate(ops):
            try:
                noop = ex.do(op)
            except Violation as v:
                v.step = i
                raise
            if noop and prune:
                cut = i
                break
        ex.finish(probe=not prune)
        return cut, ex
    except Violation as v:
        if ex.ctx and not v.sig.endswith(ex.ctx):
            v.sig += ex.ctx
            v.what += " [an I PDU had reached the connecting end after the CC while its connect() had not returned]"
        raise
    finally:
        ex.cleanup()


def shrink(cfg, ops, sig, budget=250):
    """greedy chunk removal keeping the signature (witness minimisation only; the verdict came from the full history)"""
    ops = list(ops)
    n = max(1, len(ops) // 2)
    while n >= 1 and budget > 0:
        i = 0
        changed = False
        while i < len(ops) and budget > 0:
            cand = ops[:i] + ops[i + n:]
            budget -= 1
            try:
                run_history(cfg, cand, Stats())
                same = False
            except Violation as v:
                same = v.sig == sig
                if same and getattr(v, "step", None) is not None:
                    cand = cand[:v.step + 1]
            except Exception:
                same = False
            if same:
                ops, changed = cand, True
            else:
                i += n
        if n == 1 and not changed:
            break
        n = max(1, n // 2) if n > 1 else (1 if changed else 0)
    return ops


def expand(sym):
    """alphabet symbol -> operation: <kind><end>[<connection index>]; kinds s send(8 octets), m send(exactly the MIU the
    peer announced), o send(MIU + 1), S send x RW (fill the window), r recv, R recv until nothing is ready, b busy toggle,
    c close; T one link turn, Q link turns until quiet, J connect() returns"""
    if sym in ("T", "J", "Q"):
        return [sym]
    k, e, ci = sym[0], sym[1], sym[2:]
    if k == "s":
        op = ["s", e, 8]
    elif k == "m":
        op = ["s", e, "M"]
    elif k == "o":
        op = ["s", e, "M+1"]
    elif k == "b":
        op = ["b", e, -1]            # toggle (resolved by the enumerator)
    else:
        op = [k, e]
    if ci:
        op.append(int(ci))
    return op


class Reporter:
    def __init__(self, R):
        self.R, self.shrunk = R, {}

    def violation(self, v, cfg, ops, kind):
        step = getattr(v, "step", None)
        ops = list(ops if step is None else ops[:step + 1])
        n = self.shrunk.get(v.sig, 0)
        if n < 2 and len(ops) > 3:
            self.shrunk[v.sig] = n + 1
            try:
                ops = shrink(cfg, ops, v.sig)
            except Exception:
                pass
        self.R.violation(v.sig, v.what, {"kind": "lockstep", "from": kind, "cfg": cfg, "ops": ops})


def full_cfg(ex):
    cfg = {"rw": ex["rw"], "agf": [ex["agf"], ex["agf"]], "link_miu": ex.get("link_miu", [248, 248]),
           "rcv_miu": ex.get("rcv_miu", [None, None]), "client": ex.get("client", "A"), "early": ex.get("early", 0)}
    for k in ("conns", "pre"):
        if ex.get(k):
            cfg[k] = ex[k]
    return cfg


def enumerate_histories(cfg, alphabet, depth, R, rep, st):
    """odometer over alphabet^depth; a history is cut at its first no-op step (refused send, nothing to receive,
    second empty link turn in a row) and its extensions are skipped: they equal a shorter history. Calls on
    different ends without a link turn in between touch disjoint objects and commute: only the order "A before B"
    is executed (partial-order reduction), so a history stands for its equivalence class."""
    idx = [0] * depth
    n = nontrivial = 0
    while True:
        busy = {}
        ops = []
        for i in idx:
            op = expand(alphabet[i])
            if op[0] == "b":
                who = (op[1],) + tuple(op[3:])
                busy[who] = busy.get(who, 0) ^ 1
                op = ["b", op[1], busy[who]] + op[3:]
            ops.append(op)
        cut = None
        for j in range(1, depth):
            if ops[j][0] in "srbSR" and ops[j - 1][0] in "srbSR" and ops[j][1] == "A" and ops[j - 1][1] == "B":
                cut = j
                break
        if cut is not None:
            st.inc("histories_skipped_commuting")
        else:
            n += 1
        try:
            if cut is not None:
                raise StopIteration
            cut, ex = run_history(cfg, ops, st, prune=True)
            nontrivial += bool(ex.i_seen and ex.compared)
        except Violation as v:
            rep.violation(v, cfg, ops, "exhaustive")
            cut = getattr(v, "step", None)
            nontrivial += 1
            st.inc("histories_with_violation")
        except StopIteration:
            pass
        except Inconclusive as e:
            R.inconc("lock-step history %r: %s" % (ops, e))
        pos = depth - 1 if cut is None else cut
        for j in range(pos + 1, depth):
            idx[j] = 0
        while pos >= 0:
            idx[pos] += 1
            if idx[pos] < len(alphabet):
                break
            idx[pos] = 0
            pos -= 1
        if pos < 0:
            break
    R.bulk(n, nontrivial)
    st.inc("histories_enumerated", n)
    return n


# ---------------------------------------------------------------------------------------------------------------
PROFILES = {  # op weights: turn, send, recv, busy, poll, oversize
    "balanced": (35, 25, 25, 2, 3, 1),
    "send-heavy": (20, 50, 10, 1, 2, 2),
    "link-starved": (6, 45, 40, 2, 4, 1),
    "recv-starved": (40, 40, 3, 2, 3, 1),
    "recv-heavy": (35, 15, 45, 1, 3, 1),
    "busy-flapping": (35, 20, 20, 20, 3, 1),
}


def random_cfg(rng):
    lm = [rng.choice([128, 129, 200, 248, 1000, 2175]) for _ in "AB"]

    def rcv():
        return [rng.choice([None, 128, 129, 140, lm[i], rng.randrange(128, lm[i] + 1), 2175]) for i in (0, 1)]

    def rws():
        rwmode = rng.random()
        if rwmode < 0.15:
            return [rng.choice([0, 1, 15]) for _ in "AB"]
        if rwmode < 0.35:
            return [15, 15]
        return [rng.randrange(0, 16) for _ in "AB"]
    rcv0 = rcv()
    rw0 = rws()
    cfg = {"rw": rw0, "agf": [int(rng.random() < 0.6), int(rng.random() < 0.6)], "link_miu": lm, "rcv_miu": rcv0,
           "client": rng.choice("AB"), "early": rng.choice([0] * 8 + [1, 2])}
    if not cfg["early"] and rng.random() < 0.4:
        # further data link connections on the same link: one more on the same listening SAP (same server end: the
        # accepted sockets share the service access point), and / or one on another SAP with either end connecting
        conns = []
        if rng.random() < 0.75:
            conns.append({"sap": 40, "client": cfg["client"], "rw": [rng.choice([1, 2, 3, 15, rng.randrange(0, 16)]) for _ in "AB"],
                          "rcv_miu": rcv()})
        if not conns or rng.random() < 0.5:
            conns.append({"sap": 41, "client": rng.choice("AB"), "rw": [rng.choice([1, 2, 15, rng.randrange(0, 16)]) for _ in "AB"],
                          "rcv_miu": rcv()})
        cfg["conns"] = conns
    return cfg


def gen_walk(rng, cfg, steps):
    """operation list of one random walk, generated up-front (the executor is deterministic given cfg + ops)"""
    ops = []
    specs = [{"rcv_miu": cfg["rcv_miu"]}] + list(cfg.get("conns", ()))
    nc = len(specs)
    busy = {}
    closes = {}
    if rng.random() < (0.2 if nc == 1 else 0.5):
        closes[rng.randrange(steps)] = (rng.randrange(nc), rng.choice("AB"))
        if nc > 1 and rng.random() < 0.3:
            closes[rng.randrange(steps)] = (rng.randrange(nc), rng.choice("AB"))
    join_at = rng.randrange(1, 40) if cfg["early"] == 2 else -1
    miu_guess = []                        # per connection: upper estimate of the MIU the peer of that end will announce
    for spec in specs:
        g = {"A": 128, "B": 128}
        for i, e in enumerate("AB"):
            r = (spec.get("rcv_miu") or [None, None])[i]
            g[other(e)] = min(cfg["link_miu"][i], 128 if r is None else r)
        miu_guess.append(g)
    prof = None
    side = {"A": 1.0, "B": 1.0}
    cw = [1.0] * nc

    def with_conn(op, ci):
        return op + [ci] if ci else op
    while len(ops) < steps:
        if prof is None or rng.random() < 0.01:
            prof = PROFILES[rng.choice(sorted(PROFILES))]
            side = {"A": rng.choice([0.2, 1.0, 1.0, 3.0]), "B": 1.0}
            cw = [rng.choice([0.2, 1.0, 1.0, 3.0]) for _ in range(nc)]
        if len(ops) in closes:
            ci, e = closes.pop(len(ops))
            ops.append(with_conn(["c", e], ci))
            continue
        if len(ops) == join_at:
            ops.append(["J"])
            continue
        k = rng.choices("Tsrbpo", weights=prof)[0]
        e = "A" if rng.random() < side["A"] / (side["A"] + side["B"]) else "B"
        ci = rng.choices(range(nc), weights=cw)[0] if nc > 1 else 0
        if k == "T":
            ops.append(["T"])
        elif k == "s":
            m = miu_guess[ci][e]
            n = rng.choice([0, 1, 5, 6, 17, 120, m - 1, m, "M", rng.randrange(5, m + 1)])
            ops.append(with_conn(["s", e, n if n == "M" else max(0, n)], ci))
        elif k == "o":
            m = miu_guess[ci][e]
            ops.append(with_conn(["s", e, rng.choice(["M+1", m + 1, m + 2, m + 100, m + 3000])], ci))
        elif k == "r":
            ops.append(with_conn(["r", e], ci))
        elif k == "b":
            busy[(ci, e)] = busy.get((ci, e), 0) ^ 1
            ops.append(with_conn(["b", e, busy[(ci, e)]], ci))
        else:
            ops.append(with_conn(["p", e, rng.choice(["recv", "send", "acks", "acks"])], ci))
    return ops


def run_lockstep(desc, R, rng):
    from vf.core import contracts
    contracts.install_pdu_length_contract()
    c0 = contracts.COUNTS.get("pdu_len_contract", 0)
    inv = install_dlc_invariant() if desc.get("invariants") else None
    st = Stats()
    rep = Reporter(R)
    # (1) bounded-exhaustive histories
    cfg = full_cfg(desc["ex"])
    t0 = time.time()
    enumerate_histories(cfg, desc["alphabet"], desc["depth"], R, rep, st)
    if desc.get("depth2"):
        enumerate_histories(cfg, desc["alphabet2"], desc["depth2"], R, rep, st)
    if desc.get("ex2"):
        t1 = time.time()
        st2 = Stats()
        n2 = enumerate_histories(full_cfg(dict(desc["ex2"], agf=desc["ex2"].get("agf", 1))), desc["ex2_alphabet"],
                                 desc["ex2_depth"], R, rep, st2)
        for k, v in st2.items():
            if k.startswith("max_"):
                st.mx(k, v)
            else:
                st.inc(k, v)
        # what the macro / multi-connection / wrap-position part observed, under names of its own
        st.inc("ex2_histories_enumerated", n2)
        for k in ("window_full_across_wrap", "send_wouldblock_window_across_wrap", "emsgsize_checked_at_miu_plus_1",
                  "send_accepted_exactly_miu", "pdu_on_extra_connection", "close_drain_checked", "ns_wraps"):
            st.inc("ex2_" + k, st2.get(k, 0))
        st["ex2_wall_s"] = round(time.time() - t1, 1)
        R.seen("exhaustive_configs", "macro " + json.dumps(desc["ex2"], sort_keys=True))
    R.exhaustive = False         # exhaustive only for the bounded histories of this configuration; the walks sample
    st["exhaustive_wall_s"] = round(time.time() - t0, 1)
    R.seen("exhaustive_configs", "rw=%s agf=%d early=%d" % (desc["ex"]["rw"], desc["ex"]["agf"], desc["ex"]["early"]))
    # (2) random walks
    for w in range(desc["walks"]):
        cfg = random_cfg(rng)
        ops = gen_walk(rng, cfg, desc["steps"])
        key = hashlib.blake2b(json.dumps([cfg, ops]).encode(), digest_size=8).hexdigest()
        try:
            _, ex = run_history(cfg, ops, st)
            R.case(key, nontrivial=bool(ex.i_seen and ex.compared))
            st.inc("walks")
            st.inc("walk_steps", len(ops))
            st.inc("walks_early", int(bool(cfg["early"])))
            if w < 1:
                R.sample({"walk_cfg": cfg, "accepted": [len(ex.sent["A"]), len(ex.sent["B"])],
                          "delivered": [len(ex.rcvd["B"]), len(ex.rcvd["A"])], "first_ops": ops[:12]})
        except Violation as v:
            R.case(key)
            st.inc("walks")
            st.inc("walks_with_violation")
            rep.violation(v, cfg, ops, "walk")
        except Inconclusive as e:
            R.inconc("walk %s: %s" % (key, e))
    for k, v in st.items():
        if k.startswith("max_"):
            R.max(k, v)
        else:
            R.count(k, v)
    R.count("pdu_len_contract", contracts.COUNTS.get("pdu_len_contract", 0) - c0)
    if inv is not None:
        R.count("dlc_invariant_evaluations", inv["evals"])
        R.count("dlc_invariant_failures", inv["broken"])
        R.count("dlc_invariant_unavailable", inv["unavailable"])
        if inv.get("first"):
            R.sample({"dlc_invariant_failure": inv["first"]})


def install_dlc_invariant():
    """secondary evidence only (uses nfcpy attribute names, so it never decides): counters stay in 0..15, window
    occupancy inside the announced windows, confirmations <= RW(local). Failures are counted, nothing is raised."""
    import icontract
    import nfc.llcp.tco as tco
    c = {"evals": 0, "broken": 0, "unavailable": 0}

    def dlc_state_consistent(self):
        c["evals"] += 1
        try:
            ok = (0 <= self.send_cnt <= 15 and 0 <= self.send_ack <= 15 and 0 <= self.recv_cnt <= 15
                  and 0 <= self.recv_ack <= 15 and 0 <= self.recv_confs <= max(self.recv_win, 0)
                  and (self.send_win is None or (self.send_cnt - self.send_ack) % 16 <= self.send_win)
                  and (self.recv_cnt - self.recv_ack) % 16 <= self.recv_win)
        except AttributeError:
            c["unavailable"] += 1
            return True
        if not ok:
            c["broken"] += 1
            c.setdefault("first", str(self))
        return True
    try:
        icontract.invariant(dlc_state_consistent)(tco.DataLinkConnection)
    except Exception:
        c["unavailable"] += 1
    return c


# ---------------------------------------------------------------------------------------------------------------
#  thread stress
# ---------------------------------------------------------------------------------------------------------------
class FastTime:
    """stands in for the `time` module inside nfc.llcp.llc: collect(delay) sleeps are capped (the run loops keep
    yielding the processor but an idle link does not cost 50 ms per turn)"""

    def __init__(self, cap):
        self._cap = cap

    def sleep(self, s):
        time.sleep(min(s, self._cap))

    def __getattr__(self, name):
        return getattr(time, name)


class YieldInjector:
    TOOL = 3

    def __init__(self, rng, p_yield, p_sleep):
        self.rng, self.p1, self.p2 = rng, p_yield, p_yield + p_sleep
        self.last = None
        self.sig = 0
        self.switches = 0
        self.lines = 0
        self.sites = set()
        self.active = False

    def on_line(self, code, line):
        fn = code.co_filename
        if not (fn.endswith("nfc/llcp/tco.py") or fn.endswith("nfc/llcp/llc.py")):
            return sys.monitoring.DISABLE
        t = threading.get_ident()
        self.lines += 1
        if t != self.last:
            self.last = t
            name = threading.current_thread().name
            self.switches += 1
            self.sig = hash((self.sig, name, code.co_name))
            if len(self.sites) < 2000:
                self.sites.add("%s:%s" % (name, code.co_name))
        r = self.rng.random()
        if r < self.p1:
            time.sleep(0)
        elif r < self.p2:
            time.sleep(0.0002)

    def start(self):
        mon = sys.monitoring
        mon.use_tool_id(self.TOOL, "vf-c05")
        self.active = True
        mon.register_callback(self.TOOL, mon.events.LINE, self.on_line)
        mon.set_events(self.TOOL, mon.events.LINE)
        mon.restart_events()

    def stop(self):
        if self.active:
            mon = sys.monitoring
            mon.set_events(self.TOOL, 0)
            mon.register_callback(self.TOOL, mon.events.LINE, None)
            mon.free_tool_id(self.TOOL)
            self.active = False


GATE_GUARD = 20.0


class GateCond:
    """Harness-side delegating stand-in for ONE Condition attribute of ONE connection object (send_token: the wait
    for a free send-window slot, recv_ready: the wait for a message).  Everything goes to the real Condition; on top:
      * it counts, per call of the surrounding method (= per `with cond:` entry of a thread), how often the thread
        waits: a second wait inside one call means the thread was woken and found its condition false again
        (another thread was faster) - the situation in which a missing re-check breaks the protocol;
      * hold: a thread that returns from an untimed wait() gives the lock up again at once (exactly the state of a
        notified thread that has not been scheduled yet: Condition.wait() = release, sleep, re-acquire and other
        threads may get the lock before the re-acquisition) and parks until the harness releases it;
      * p_delay: the same, but only for a few yields (random schedule perturbation in the threaded runs).
    Nothing here decides a verdict."""

    def __init__(self, real, rng=None, p_delay=0.0, until_entered=False):
        self._real = real
        self._rng, self._p = rng, p_delay
        self._until_entered = until_entered
        self.enters = self.delays_entered = 0
        self.mu = threading.Lock()
        self.calls = {}             # thread ident -> waits in the current call
        self.waiting = set()        # idents inside the real wait()
        self.parked = set()         # idents parked after a wake-up, lock released
        self.hold = False
        self.go = threading.Event()
        self.wakeups = self.rewaits = self.delays = self.guard_hit = self.unavailable = 0

    def __enter__(self):
        r = self._real.__enter__()
        self.calls[threading.get_ident()] = 0
        self.enters += 1
        return r

    def __exit__(self, *a):
        return self._real.__exit__(*a)

    def _give_up_lock(self, pause):
        try:
            saved = self._real._release_save()
        except Exception:
            self.unavailable += 1
            return
        try:
            pause()
        finally:
            self._real._acquire_restore(saved)

    def wait(self, timeout=None):
        me = threading.get_ident()
        with self.mu:
            n = self.calls.get(me, 0)
            self.calls[me] = n + 1
            self.rewaits += n > 0
            self.waiting.add(me)
        try:
            r = self._real.wait(timeout)
        finally:
            with self.mu:
                hold = self.hold and timeout is None
                if hold:
                    self.parked.add(me)         # before it leaves `waiting`: never in neither set
                self.waiting.discard(me)
                self.wakeups += 1
        if timeout is not None:
            return r
        if hold:
            def park():
                if not self.go.wait(GATE_GUARD):
                    self.guard_hit += 1
            try:
                self._give_up_lock(park)
            finally:
                with self.mu:
                    self.parked.discard(me)
        elif self._p and self._rng.random() < self._p:
            self.delays += 1
            if self._until_entered and self._rng.random() < 0.5:
                # forced contention: the woken thread stays off the lock until another thread has entered a call on this
                # Condition (a sender that may take the freed slot first), at most 200 yields (coverage only)
                e0 = self.enters

                def pause():
                    for _ in range(200):
                        if self.enters != e0:
                            self.delays_entered += 1
                            return
                        time.sleep(0)
                self._give_up_lock(pause)
            else:
                k = self._rng.choice((1, 1, 2, 4))
                self._give_up_lock(lambda: [time.sleep(0) for _ in range(k)])
        return r

    def notified(self):
        """threads that are inside the real wait() but no longer registered as waiters: they have been notified and
        will return as soon as they are scheduled (None if CPython's waiter list is not accessible)"""
        try:
            return len(self.waiting) - len(self._real._waiters)
        except Exception:
            return None

    def await_parked(self, n):
        """until n threads are parked; does not wait for wake-ups that were never issued"""
        t0 = time.time()
        while len(self.parked) < n and time.time() - t0 < GATE_GUARD:
            with self.mu:               # a woken thread moves from `waiting` to `parked` under this lock
                k, parked = self.notified(), len(self.parked)
            if k is not None and parked + k < n:
                return False
            time.sleep(0)
        return len(self.parked) >= n

    def __getattr__(self, name):
        return getattr(self._real, name)


def judge_delivery(direction, sends, recvs, complete):
    """Delivery oracle for one direction with any number of sender / receiver threads on the connection.
    sends: {sender thread: [[msg, start stamp, end stamp or None (call not returned / not accepted)], ...]} in call order;
    recvs: {receiver thread: [msg, ...]} in the order that thread's recv() calls returned.
    exactly once: no message twice, nothing that was never handed to send(); in sending order: if send(m1) returned
    before send(m2) was called (always so inside one sender thread) no receiver thread gets m2 before m1, and with
    one receiver thread the messages of a sender thread arrive without gaps; complete (quiescence, nobody closed):
    the delivered and the accepted messages are the same multiset.  Returns (clause, text) or None."""
    info = {}
    for t, recs in sends.items():
        for k, (msg, s0, s1) in enumerate(recs):
            info[msg] = (s0, s1 if s1 is not None else 1 << 62, t, k)
    seen = {}
    for rt, got in recvs.items():
        hi, him = -1, None
        for i, msg in enumerate(got):
            if not isinstance(msg, (bytes, bytearray)):
                return ("recv-returned-%s" % type(msg).__name__, "%s %s recv() #%d returned %r" % (direction, rt, i, msg))
            msg = bytes(msg)
            if msg in seen:
                return ("duplicate", "%s message %r delivered twice (%s #%d and %s #%d)" % (
                    direction, msg[:5], seen[msg][0], seen[msg][1], rt, i))
            seen[msg] = (rt, i)
            if msg not in info:
                return ("never-accepted", "%s %s recv() #%d returned %d bytes no send() was given" % (direction, rt, i, len(msg)))
            s0, s1, t, k = info[msg]
            if s1 < hi:
                return ("lost-or-reordered", "%s %s received message #%d of %s after message #%d of %s although its "
                        "send() had returned before that one was called" % (direction, rt, k, t, info[him][3], info[him][2]))
            if s0 > hi:
                hi, him = s0, msg
    if len(recvs) == 1 or complete:
        for t, recs in sends.items():
            flags = [rec[0] in seen for rec in recs]
            if False in flags and True in flags[flags.index(False):]:
                return ("lost-or-reordered", "%s message #%d of %s was not delivered but a later one of that thread was" % (
                    direction, flags.index(False), t))
    if complete:
        acc = sum(1 for recs in sends.values() for rec in recs if rec[2] is not None)
        lost = [(t, k) for t, recs in sends.items() for k, rec in enumerate(recs) if rec[2] is not None and rec[0] not in seen]
        if lost or len(seen) != acc:
            return ("lost-at-quiescence", "%s: accepted %d, delivered %d, first missing %r" % (direction, acc, len(seen), lost[:1]))
    return None


class WireWatch:
    """pipe observer: online window model + what the stall detector needs (frame numbers of events)"""

    def __init__(self, st):
        self.st = st
        self.model = WindowModel()
        self.frame = 0
        self.i_frame = {"A": [], "B": []}        # frame number of the k-th I PDU of that sender
        self.ack_frame = {"A": 0, "B": 0}        # frame number of the last acknowledgement that advanced for that sender
        self.bad = []
        self.i_data = {"A": [], "B": []}
        self.ann_busy = {"A": False, "B": False}
        self.undecodable = 0
        self.first = {}                          # frame number of the first CONNECT / CC
        self.seq = 0                             # running number of leaf PDUs (order inside aggregated frames)
        self.first_seq = {}
        self.first_i_seq = {}
        self.frame_of = {}                       # I PDU payload -> frame number (payloads carry unique ids)
        self.last_data_frame = 0                 # frame number of the last frame that carried anything but SYMM
        self.on_first_disc = None

    def __call__(self, direction, data, _pdu=None):
        x = direction[0]
        self.frame += 1
        try:
            leaves = ref.flatten(ref.decode(data))
        except ref.Reject:
            self.undecodable += 1
            return
        st, m = self.st, self.model
        if len(leaves) > 1:
            st.inc("aggregated_frames")
        for d in leaves:
            t = d["t"]
            st.inc("pdu_" + t)
            if t == "SYMM":
                continue
            if t == "DISC" and "DISC" not in self.first and self.on_first_disc:
                self.on_first_disc(x)
            self.first.setdefault(t, self.frame)
            self.last_data_frame = self.frame
            self.seq += 1
            self.first_seq.setdefault(t, self.seq)
            if t == "I":
                self.first_i_seq.setdefault(x, self.seq)
            if t == "RNR":
                if not self.ann_busy[x]:
                    st.inc("rnr_episodes")
                self.ann_busy[x] = True
            elif t == "RR":
                self.ann_busy[x] = False
            acked = m.acked[other(x)]
            wraps, full = m.wraps, m.full
            bad = m.feed(x, d)
            st.inc("ns_wraps", m.wraps - wraps)
            st.inc("window_full_events", m.full - full)
            if t == "I":
                self.i_frame[x].append(self.frame)
                self.i_data[x].append(d["data"])
                self.frame_of.setdefault(d["data"], self.frame)
                st.mx("max_outstanding", m.outstanding(x))
            if m.acked[other(x)] != acked:
                self.ack_frame[other(x)] = self.frame
            for clause, detail in bad:
                if clause == "pdu-before-cc":
                    clause += "/" + t
                if len(self.bad) < 20:
                    self.bad.append((clause, "%s>%s %s: %s" % (x, other(x), t, detail)))


def wait_info(th):
    """(qualified name of the innermost nfc/llcp/tco.py function, untimed?, still registered as waiter?) of a
    thread that sits in threading.Condition.wait, else None"""
    f = sys._current_frames().get(th.ident)
    if f is None or f.f_code.co_name != "wait" or not f.f_code.co_filename.endswith("threading.py"):
        return None
    loc = f.f_locals
    if "waiter" not in loc:
        return None
    cond, waiter = loc.get("self"), loc.get("waiter")
    try:
        registered = waiter in cond._waiters
    except Exception:
        registered = None
    g = f.f_back
    while g is not None and not g.f_code.co_filename.endswith("nfc/llcp/tco.py"):
        g = g.f_back
    if g is None:
        return None
    return (getattr(g.f_code, "co_qualname", g.f_code.co_name), loc.get("timeout") is None, registered)


def threaded_run(cfg, R, rng, st, budget=60.0, obs=None):
    """one run; returns list of (sig, what) violations; raises Inconclusive.
    cfg["close"] = {"who": end, "after": k}: a further application thread calls close() on the socket of that end once
    k I PDUs of that end were on the wire; then the delivery oracle's prefix part applies, plus: the peer's receivers
    read until recv() reports the end and must have got every I PDU that was on the wire before the DISC.  Calls that
    never return after the close() and exceptions (other than nfc.llcp.Error) out of calls that ran into it are not
    part of the property statement: they end the run and are appended to `obs` with a mechanism name, not judged."""
    obs = [] if obs is None else obs
    n_obs0 = len(obs)
    import nfc.llcp
    import nfc.llcp.llc as LLC
    from vf.sim.llcpair import ThreadedPair
    L = nfc.llcp
    viol = []
    watch = WireWatch(st)
    inj = YieldInjector(rng, cfg["p_yield"], cfg["p_sleep"])
    lm, agf = cfg["link_miu"], cfg["agf"]
    real_time = LLC.time
    LLC.time = FastTime(cfg.get("sleep_cap", 0.0005))
    pair = ThreadedPair({"miu": lm[0], "agf": bool(agf[0]), "lto": 2500}, {"miu": lm[1], "agf": bool(agf[1]), "lto": 2500})
    pair.pipe.keep_wire = False
    pair.pipe.observers.append(watch)
    state = {}                         # thread name -> (op, index[, message]) of the call in progress, None between calls
    nsend = cfg.get("senders", [1, 1])
    nrecv = cfg.get("receivers", [1, 1])
    close = cfg.get("close")
    sends = {"A": {}, "B": {}}         # end -> sender thread -> [[message, start stamp, end stamp | None], ...]
    rcvd = {"A": {}, "B": {}}          # end -> receiver thread -> [message, ...]
    roles = {"setupS": (None, "setup"), "setupC": (None, "setup")}
    stamp = itertools.count()
    quota = {"A": cfg["n"][1], "B": cfg["n"][0]}       # recv() calls still to be started at that end
    if close:
        quota = {"A": 1 << 30, "B": 1 << 30}           # the receivers go on until recv() reports the end
    qlock = threading.Lock()
    gates = {}
    none_seen = {"n": 0}
    errors = []
    close_errors = []                  # close runs: exceptions other than nfc.llcp.Error after close() was called
    marks = {}
    late = []
    over = {"checked": 0}
    socks = {}
    outcome = {}
    c, s = cfg["client"], other(cfg["client"])
    connected = threading.Event()
    stop = threading.Event()
    closing = threading.Event()
    threads = []

    def guarded(fn):
        def run(*a):
            me = threading.current_thread().name
            try:
                fn(*a)
            except BaseException as e:
                if closing.is_set() and isinstance(e, L.Error):
                    outcome[me] = "raised-" + errname(e)      # the connection went away under the call
                    return
                (close_errors if closing.is_set() else errors).append((me, e))
        return run

    def setopts(sock, i):
        if cfg["rcv_miu"][i] is not None:
            sock.setsockopt(L.SO_RCVMIU, cfg["rcv_miu"][i])
        sock.setsockopt(L.SO_RCVBUF, cfg["rw"][i])

    def sender(end, idx, count):
        me = threading.current_thread().name
        if not (cfg["greet"] and end == s) and not connected.wait(40):
            late.append(me)
            return
        sock = socks[end]
        miu = sock.getsockopt(L.SO_SNDMIU)
        r = random.Random(cfg["seed"] * 7 + ord(end) + idx * 131)
        recs = sends[end][me]
        for k in range(count):
            if stop.is_set():
                return
            if r.random() < 0.04:
                big = make_msg(end, 1000000 + idx * 100000 + k, miu + r.choice([1, 2, 500]))
                try:
                    ok = sock.send(big)
                    viol.append(("miu/oversize-accepted", "blocking send(%d bytes) returned %r, MIU %d" % (len(big), ok, miu)))
                except L.Error as e:
                    if e.errno != errno.EMSGSIZE:
                        if closing.is_set():
                            raise
                        viol.append(("miu/oversize-wrong-error-%s" % errname(e), "send(len>MIU) raised %r" % e))
                    over["checked"] += 1
            if r.random() < 0.05:
                sock.poll("acks", 0)
            n = r.choice([5, 6, 9, 40, miu, miu - 1, r.randrange(5, miu + 1)])
            msg = make_msg(end, idx * 100000 + k, n)
            rec = [msg, next(stamp), None]
            recs.append(rec)
            state[me] = ("send", k, msg)
            try:
                ok = sock.send(msg)
            finally:
                state[me] = None
            if ok is True:
                rec[2] = next(stamp)
            elif ok is False and closing.is_set():
                outcome[me] = "returned-False"
                return
            else:
                errors.append((me, RuntimeError("send returned %r" % ok)))
                return
        outcome[me] = "done"

    def receiver(end, idx):
        me = threading.current_thread().name
        if end == c and not connected.wait(40):
            late.append(me)
            return
        sock = socks[end]
        r = random.Random(cfg["seed"] * 11 + ord(end) + idx * 137)
        busy_left = 0
        got = rcvd[end][me]
        while not stop.is_set():
            with qlock:
                if quota[end] <= 0:
                    break
                quota[end] -= 1
            if cfg["busy"] and busy_left == 0 and r.random() < 0.06 and (cfg["greet"] or connected.is_set()):
                sock.setsockopt(L.SO_RCVBSY, True)
                busy_left = r.randrange(1, 6)
                f0 = watch.frame                    # the RNR gets a few link frames to go out (frames, not time:
                for _ in range(4000):               # an idle link keeps exchanging SYMM PDUs)
                    if watch.frame >= f0 + 3 or stop.is_set():
                        break
                    time.sleep(0.0005)
            if busy_left and not sock.poll("recv", 0):
                # a busy receiver takes what is queued but does not block in recv(): a peer that honours RNR would
                # (correctly) send nothing and both applications would wait for each other
                sock.setsockopt(L.SO_RCVBSY, False)
                busy_left = 0
            if r.random() < 0.1:
                sock.poll("recv", 0.001)
            state[me] = ("recv", len(got))
            try:
                m = sock.recv()
            finally:
                state[me] = None
            if m is None and closing.is_set():
                outcome[me] = "returned-None"
                return
            if m is None and nrecv["AB".index(end)] > 1 and none_seen["n"] < 100000:
                # observation, not judged (no message is lost): with several threads in recv() on one socket a woken
                # receiver may find the queue emptied by another one and gets None although nobody closed
                none_seen["n"] += 1
                with qlock:
                    quota[end] += 1
            else:
                got.append(m)
            if busy_left:
                busy_left -= 1
                if busy_left == 0:
                    sock.setsockopt(L.SO_RCVBSY, False)
        if busy_left:
            sock.setsockopt(L.SO_RCVBSY, False)

    def closer(end, after):
        me = threading.current_thread().name
        if not connected.wait(40):
            late.append(me)
            return
        t0 = time.time()
        while watch.model.sent[end] < after and not stop.is_set() and time.time() - t0 < 20:
            if not any(t.is_alive() for t in threads if roles.get(t.name) == (end, "send")):
                break
            time.sleep(0.001)
        marks["close_called"] = watch.frame
        marks["unread_at_close"] = len(watch.i_frame[other(end)]) - sum(len(v) for v in rcvd[end].values())
        closing.set()
        state[me] = ("close", 0)
        try:
            socks[end].close()
        finally:
            state[me] = None
        outcome[me] = "returned"

    def install_gate(end, sock):
        if max(nsend) > 1:
            # coverage of the contended window wait (and a little more schedule variety at exactly that point)
            tco = steer(sock, "_tco")
            gates[end] = tco.send_token = GateCond(steer(tco, "send_token"), random.Random(cfg["seed"] + ord(end)),
                                                   cfg.get("p_wake_delay", 0.0), until_entered=True)

    def server_setup():
        srv = L.Socket(pair.llc_of(s), L.DATA_LINK_CONNECTION)
        setopts(srv, "AB".index(s))
        srv.bind(40)
        srv.listen(1)
        socks["listen"] = srv
        listening.set()
        state["setupS"] = ("accept", 0)
        acc = srv.accept()
        install_gate(s, acc)
        socks[s] = acc
        state["setupS"] = None
        accepted_ev.set()

    def client_setup():
        listening.wait(10)
        cli = L.Socket(pair.llc_of(c), L.DATA_LINK_CONNECTION)
        setopts(cli, "AB".index(c))
        state["setupC"] = ("connect", 0)
        cli.connect(40)
        marks["connect_returned"] = watch.frame
        state["setupC"] = None
        install_gate(c, cli)
        socks[c] = cli
        connected.set()

    watch.on_first_disc = lambda x: marks.setdefault("delivered_at_disc", sum(len(v) for v in rcvd[other(x)].values()))
    pair.llc_of = lambda e: pair.a if e == "A" else pair.b
    listening, accepted_ev = threading.Event(), threading.Event()
    t_start = time.time()
    result = None
    try:
        inj.start()
        if not pair.start(10):
            raise Inconclusive("threaded pair did not come up")
        ts = threading.Thread(target=guarded(server_setup), name="setupS", daemon=True)
        tc = threading.Thread(target=guarded(client_setup), name="setupC", daemon=True)
        ts.start()
        tc.start()
        suspect = {}
        t_acc = time.time()
        while not accepted_ev.wait(0.05):
            stall = detect_stall([ts, tc], state, watch, suspect, st=st)
            if stall:
                viol.append(stall)
                break
            if errors or time.time() - t_acc > 30:
                raise Inconclusive("accept() did not return within 30 s (errors: %r)" % errors)
        for i, end in enumerate("AB"):
            if viol:
                break
            for j in range(nsend[i]):
                name = "send%s%s" % (end, j if nsend[i] > 1 else "")
                count = cfg["n"][i] // nsend[i] + (j < cfg["n"][i] % nsend[i])
                sends[end][name], roles[name] = [], (end, "send")
                threads.append(threading.Thread(target=guarded(sender), args=(end, j, count), name=name, daemon=True))
            for j in range(nrecv[i]):
                name = "recv%s%s" % (end, j if nrecv[i] > 1 else "")
                rcvd[end][name], roles[name] = [], (end, "recv")
                threads.append(threading.Thread(target=guarded(receiver), args=(end, j), name=name, daemon=True))
        if close and not viol:
            roles["closer"] = (close["who"], "close")
            threads.append(threading.Thread(target=guarded(closer), args=(close["who"], close["after"]), name="closer", daemon=True))
        for t in threads:
            t.start()
        # monitor: structural stall / loss detection, wall-clock only decides "inconclusive"
        suspect, suspect_lost, suspect_close = {}, {}, {}
        while any(t.is_alive() for t in threads):
            time.sleep(0.02)
            if closing.is_set():
                blocked = detect_blocked_after_close(threads, roles, state, watch, suspect_close, close["who"], st)
                if blocked:             # "every call returns" is not in the statement: observed, the run ends here
                    obs.append(blocked + (cfg,))
                    break
                stall = None
            else:
                stall = detect_stall(threads + [tc], state, watch, suspect, roles=roles, rcvd=rcvd, st=st)
                if not stall and not errors:
                    stall = detect_lost(threads, roles, state, watch, sends, rcvd, suspect_lost, st)
            if stall:
                viol.append(stall)
                break
            if errors or watch.bad:
                break
            if time.time() - t_start > budget:
                where = {t.name: (state.get(t.name), wait_info(t)) for t in threads if t.is_alive()}
                raise Inconclusive("threaded run watchdog (%ds): %r frame=%d" % (budget, where, watch.frame))
        if close and not any(t.is_alive() for t in threads if roles.get(t.name) == (other(close["who"]), "recv")):
            # close class: the receivers of the closing end's peer have all returned (recv() reported the end to the last
            # of them; with two receivers one may have got a benign None earlier): whatever is still queued is read here
            y = other(close["who"])
            try:
                while socks[y].poll("recv", 0):
                    msg = socks[y].recv()
                    if msg is None:
                        break
                    rcvd[y].setdefault("harness", []).append(msg)
            except L.Error:
                pass
        link_died = not (pair.ta.is_alive() and pair.tb.is_alive())
        if errors and not link_died:
            # a live link keeps exchanging (at least SYMM) frames; if none flow any more the link has ended and the
            # errors of the application threads are its consequence, not evidence about the connection
            f0, t1 = watch.frame, time.time()
            while watch.frame < f0 + 4 and time.time() - t1 < 3.0:
                time.sleep(0.02)
            link_died = watch.frame < f0 + 4
        stop.set()
        if late and not watch.bad:
            raise Inconclusive("connect() did not return within 40 s: %r never started" % late)
        if link_died and (errors or any(t.is_alive() for t in threads)):
            raise Inconclusive("the link ended before the application threads were done (run loop exceptions %r, "
                               "thread errors %r)" % (pair.run_exc, errors[:2]))
        result = "done"
    finally:
        inj.stop()
        pair.term_a = True
        pair.join(5)
        if pair.ta.is_alive() or pair.tb.is_alive():
            pair.pipe.broken = True
            pair.join(3)
        LLC.time = real_time
    st.inc("thread_switches", inj.switches)
    st.inc("monitored_lines", inj.lines)
    for site in inj.sites:
        R.seen("switch_sites", site)
    R.seen("schedule_signatures", "%016x" % (inj.sig & 0xFFFFFFFFFFFFFFFF))
    cfg["schedule_sig"] = "%016x" % (inj.sig & 0xFFFFFFFFFFFFFFFF)
    viol = [("window/" + clause, text) for clause, text in watch.bad] + viol      # earliest symptom first
    for name, e in errors:
        if isinstance(e, L.Error):
            viol.append(("api/threaded-%s/unexpected-%s" % (name[:4], errname(e)), "%s raised %r on an open connection" % (name, e)))
        else:
            not_steering(e)
            viol.append(("escape/threaded-%s/%s" % (name[:4], exc_sig(e)), "%s raised %r" % (name, e)))
    for name, e in close_errors:
        not_steering(e)
        obs.insert(0, ("escape/threaded-close/%s/%s" % (name[:4], exc_sig(e)), "%s raised %r after close() was called" % (name, e), cfg))
    if watch.undecodable:
        viol.append(("wire/undecodable", "%d frames rejected by the reference decoder" % watch.undecodable))
    stalled = any(v[0].startswith("stall/") for v in viol)
    for x in "AB":
        got = sum(len(v) for v in rcvd[other(x)].values())
        st.inc("threaded_messages_delivered", got)
        st.inc("recv_compared", got)
        complete = not stalled and not errors and not close
        bad = judge_delivery("%s>%s" % (x, other(x)), sends[x], rcvd[other(x)], complete)
        if bad:
            viol.append(("deliver/" + bad[0], bad[1]))
        elif complete:
            st.inc("quiescence_equal_checked")
        refused_on_wire = [d for d in watch.i_data[x] if len(d) >= 5 and d[1:5] >= (1000000).to_bytes(4, "big")]
        if refused_on_wire:
            viol.append(("miu/refused-message-transmitted", "%d oversize messages on the wire" % len(refused_on_wire)))
    if close and result == "done" and not viol:
        # close class (a): the peer of the closing end has called recv() until it reported the end; every I PDU that
        # was on the wire before the DISC must have been returned
        x = close["who"]
        y = other(x)
        ended = [n for n, role in roles.items() if role == (y, "recv") and outcome.get(n, "").startswith(("returned-None", "raised-"))]
        if "DISC" in watch.first and ended and len(ended) == nrecv["AB".index(y)]:
            got = sum(len(v) for v in rcvd[y].values())
            st.inc("thr_close_drain_checked")
            st.inc("thr_close_drain_undelivered_at_disc", int(marks.get("delivered_at_disc", got) < watch.model.sent[x]))
            if got < watch.model.sent[x]:
                viol.append(("deliver/lost-after-peer-close", "%s called close(); %d I PDUs were on the wire before the DISC, "
                             "the peer's receivers got %d before recv() reported the end" % (x, watch.model.sent[x], got)))
    st.inc("recv_none_on_open_connection", none_seen["n"])
    for g in gates.values():
        st.inc("woken_window_full_again", g.rewaits)
        st.inc("thr_woken_window_full_again", g.rewaits)
        st.inc("threaded_rewaits", g.rewaits)
        st.inc("window_wait_wakeups", g.wakeups)
        st.inc("wake_delays_injected", g.delays)
        st.inc("wake_delays_until_another_sender_entered", g.delays_entered)
        st.inc("gate_unavailable", g.unavailable)
    st.mx("max_sender_threads", max(nsend))
    st.mx("max_receiver_threads", max(nrecv))
    st.inc("emsgsize_checked", over["checked"])
    first_i = watch.i_frame[s][0] if watch.i_frame[s] else None
    if (viol and first_i is not None and "CC" in watch.first_seq and not viol[0][0].startswith("window/pdu-before-cc")
            and watch.first_seq["CC"] < watch.first_i_seq[s] and first_i <= marks.get("connect_returned", 1 << 60)):
        # same structural context as in the lock-step monitor: the accepting end's first I PDU was transmitted after
        # the CC but before the peer's connect() had returned
        viol = [(sig if sig.endswith("-returned") else sig + "/i-after-cc-before-connect-returned", what) for sig, what in viol]
    if result == "done" and not viol:
        st.inc("threaded_runs_completed")
        st.inc("multi_sender_runs_completed", int(max(nsend) > 1))
        st.inc("multi_receiver_runs_completed", int(max(nrecv) > 1))
        if close:
            st.inc("thr_close_runs_completed")
            st.inc("thr_close_runs_with_observation", int(len(obs) > n_obs0))
            st.inc("thr_close_unread_at_close", int(marks.get("unread_at_close", 0) > 0))
            for name, how in outcome.items():
                st.inc("thr_close_outcome_%s_%s" % (name[:4], how))
    return viol


def registered_waiter(t, state, infos):
    """wait_info of a live thread that is inside an application call, else None (cached per monitor sample)"""
    if t.name not in infos:
        infos[t.name] = wait_info(t) if t.is_alive() and state.get(t.name) is not None else None
    return infos[t.name]


def detect_lost(threads, roles, state, watch, sends, rcvd, suspect, st, settle=60):
    """lost message, decided structurally: every sender thread of an end has returned (a blocking send() returns when
    its I PDU was handed to the link, so nothing accepted is still queued), the wire has carried nothing but SYMM PDUs
    for `settle` frames, every live receiver thread of the peer is a registered waiter of the untimed wait in recv()
    (nobody is about to deliver anything) and fewer messages were delivered than accepted.  Seen twice in a row with
    identical counts.  No clock involved: frames keep flowing on an idle link."""
    infos = {}
    st.inc("lost_checks_evaluated")
    for x in "AB":
        y = other(x)
        snd = [t for t in threads if roles.get(t.name) == (x, "send")]
        rcv = [t for t in threads if roles.get(t.name) == (y, "recv") and t.is_alive()]
        if not snd or any(t.is_alive() for t in snd) or not rcv:
            suspect.pop(x, None)
            continue
        st.inc("lost_checks_armed")
        acc = sum(1 for recs in sends[x].values() for rec in recs if rec[2] is not None)
        got = sum(len(v) for v in rcvd[y].values())
        ok = got < acc and watch.frame - watch.last_data_frame >= settle
        for t in rcv:
            i = registered_waiter(t, state, infos) if ok else None
            if i is None or not i[1] or i[2] is not True or not i[0].endswith("TransmissionControlObject.recv"):
                ok = False
                break
        if not ok:
            suspect.pop(x, None)
            continue
        key = (acc, got, watch.last_data_frame)
        if suspect.get(x) == key:
            on_wire = len(watch.i_frame[x])
            return ("deliver/lost-at-quiescence/%s" % ("transmitted" if on_wire >= acc else "never-transmitted"),
                    "%s>%s: all sender threads have returned (%d messages accepted, %d I PDUs on the wire), %d delivered, "
                    "every receiver thread waits in recv() as a registered waiter and the wire has carried only SYMM PDUs "
                    "for %d frames" % (x, y, acc, on_wire, got, watch.frame - watch.last_data_frame))
        suspect[x] = key
    return None


def detect_blocked_after_close(threads, roles, state, watch, suspect, who, st, settle=60):
    """close class (b), 'every call returns': after close() was called on end `who`, EVERY live application thread sits
    inside a call as a registered waiter of an untimed wait (so no thread is left that could notify another one: only
    the link run loops could, and they act on received PDUs only) while the wire has carried only SYMM PDUs for `settle`
    frames (the DISC/DM exchange, if any, is long over).  Seen twice in a row.  The first such thread is named."""
    live = [t for t in threads if t.is_alive()]
    if not live or watch.frame - watch.last_data_frame < settle:
        suspect.clear()
        return None
    infos = {}
    for t in live:
        i = registered_waiter(t, state, infos)
        if i is None or not i[1] or i[2] is not True:
            suspect.clear()
            return None
    st.inc("close_stall_checks_armed")
    key = tuple(sorted((t.name, state.get(t.name)[:2], infos[t.name][0]) for t in live)) + (watch.last_data_frame,)
    if suspect.get("all") != key:
        suspect["all"] = key
        return None
    order = {"close": 0, "send": 1, "recv": 2}
    t = min(live, key=lambda t: (order.get(roles.get(t.name, (None, "?"))[1], 3), t.name))
    end, kind = roles.get(t.name, (None, "?"))
    i = infos[t.name]
    return ("stall/blocked-after-close/%s/%s/%s/%s" % (
        "local" if end == who else "peer", {"close": "closer"}.get(kind, kind),
        ".".join(i[0].split(".")[-2:]), "disc-on-wire" if "DISC" in watch.first else "no-disc-on-wire"),
        "%s called close(); every live application thread is a registered waiter of an untimed wait (%s) although the "
        "wire has carried only SYMM PDUs for %d frames; e.g. %s (end %s) inside %s" % (
            who, ", ".join(sorted(x.name for x in live)), watch.frame - watch.last_data_frame, t.name, end, i[0]))


def detect_stall(threads, state, watch, suspect, settle=40, roles=None, rcvd=None, st=None):
    """lost wake-up: thread in an untimed wait, still registered as waiter (nobody notified it), while the wire log
    shows - at least `settle` frames ago - that what it waits for has happened. Checked twice in a row.
    With several sender (receiver) threads on one socket a free window slot (a queued message) may be meant for
    another thread that is about to take it: then only the situation in which EVERY live sender (receiver) thread
    of that end is a registered waiter and the wire shows nothing outstanding (more messages than all of them
    received) counts - nothing but a notification could end it.
    A sender that waits for the window while the peer's last RR/RNR on the wire says "busy" is not judged: a sender
    that honours RNR may hold back although the window is open."""
    m = watch.model
    roles = roles or {}
    infos = {}

    def info_of(t):
        if t.name not in infos:
            infos[t.name] = wait_info(t) if t.is_alive() and state.get(t.name) is not None else None
        return infos[t.name]

    def team(end, kind):
        return [t for t in threads if roles.get(t.name) == (end, kind)]

    def all_wait(members, suffix):
        for t in members:
            if not t.is_alive():
                continue
            i = info_of(t)
            if i is None or not i[1] or i[2] is not True or not i[0].endswith(suffix):
                return False
        return True

    for t in threads:
        cur = state.get(t.name)
        if cur is None or not t.is_alive():
            suspect.pop(t.name, None)
            continue
        info = info_of(t)
        if info is None or not info[1] or info[2] is not True:
            suspect.pop(t.name, None)
            continue
        if st is not None:
            st.inc("stall_checks_armed")          # a registered waiter of an untimed wait was compared with the wire
        qual = info[0]
        end = roles.get(t.name, (t.name[-1],))[0]
        op, k = cur[0], cur[1]
        happened = None
        if op == "send" and qual.endswith("TransmissionControlObject.send"):
            # waits for its I PDU to be taken from the send queue; it is on the wire already
            if len(cur) > 2:
                happened = watch.frame_of.get(cur[2])
            elif len(watch.i_frame[end]) > k:
                happened = watch.i_frame[end][k]
        elif op == "send" and qual.endswith("DataLinkConnection.send"):
            # waits for the send window to open; the wire shows acknowledgements that opened it
            mates = team(end, "send")
            if watch.ann_busy[other(end)]:
                is_open = False
                if st is not None:
                    st.inc("stall_check_skipped_peer_busy")
            elif len(mates) <= 1:
                is_open = m.established and m.sent[end] == k and m.outstanding(end) < m.rw.get(other(end), 0)
            else:
                is_open = (m.established and m.rw.get(other(end), 0) > 0 and m.outstanding(end) == 0
                           and all_wait(mates, "DataLinkConnection.send"))
            if is_open:
                happened = max(watch.ack_frame[end], watch.i_frame[end][-1] if watch.i_frame[end] else 0)
        elif op == "accept" and qual.endswith("TransmissionControlObject.recv"):
            happened = watch.first.get("CONNECT")
        elif op == "connect" and qual.endswith("TransmissionControlObject.recv"):
            happened = watch.first.get("CC")
        elif op == "recv" and qual.endswith("TransmissionControlObject.recv"):
            mates = team(end, "recv")
            if len(mates) > 1:
                k = sum(len(v) for v in rcvd[end].values()) if all_wait(mates, "TransmissionControlObject.recv") else 1 << 60
            if m.established and len(watch.i_frame[other(end)]) > k:
                happened = watch.i_frame[other(end)][k]
        if happened is None or watch.frame - happened < settle:
            suspect.pop(t.name, None)
            continue
        key = (cur[:2], qual, happened)
        if suspect.get(t.name) == key:
            return ("stall/blocked-after-event/%s/%s" % (op, ".".join(qual.split(".")[-2:])),
                    "%s sits in an untimed wait inside %s as a registered waiter (not notified, or woken and waiting "
                    "again) although the wire shows the awaited event at frame %d (now frame %d): %s #%d" % (
                        t.name, qual, happened, watch.frame, op, k))
        suspect[t.name] = key
    return None


# ---------------------------------------------------------------------------------------------------------------
#  forced schedules: several application threads on one socket, the contended wake-up window made deterministic
# ---------------------------------------------------------------------------------------------------------------
def random_gated_cfg(rng):
    rw = rng.choice([1, 1, 2, 3])
    freed = rng.randrange(1, rw + 1)
    kind = "recv" if rng.random() < 0.2 else "send"
    return {"kind": kind, "rw": rw, "rw_back": rng.choice([1, 2, 15]), "end": rng.choice("AB"), "client": rng.choice("AB"),
            "agf": [int(rng.random() < 0.5), int(rng.random() < 0.5)],
            "pre": rng.choice([0, 0, 1, 2, 5, 13, 14, 15, 16, 17, 31]),    # messages delivered before (moves N(S), wrap)
            "waiters": rng.randrange(1, 4),          # threads parked in the blocking call
            "per_waiter": rng.choice([1, 1, 2]),     # messages each of them sends
            "freed": freed,                          # window slots the acknowledgement(s) free
            "ack_pdus": rng.randrange(1, freed + 1),  # ... carried by that many separate RR PDUs (one wake-up each)
            "thieves": rng.choice([freed, freed, max(0, freed - 1)]),   # fresh send() calls that get in first
            "thief_mode": rng.choice(["thread", "thread", "dontwait"]),
            "tx_first": int(rng.random() < 0.5),     # the late comers' I PDUs are transmitted before the woken thread runs
            "lazy_recv": int(rng.random() < 0.6),    # afterwards the receiver calls recv() only when the link went quiet
            "msgs": rng.randrange(1, 4)}             # (recv) messages that arrive while the receivers are parked


def random_gated_close_cfg(rng):
    rw = rng.choice([1, 1, 2, 3])
    mode = rng.choice(["window", "window", "inflight"])
    return {"kind": "close", "rw": rw, "rw_back": rng.choice([1, 2, 15]), "end": rng.choice("AB"), "client": rng.choice("AB"),
            "agf": [int(rng.random() < 0.5), int(rng.random() < 0.5)],
            "pre": rng.choice([0, 1, 2, 5, 14, 15, 16]), "who": rng.choice(["local", "peer"]), "mode": mode,
            "waiters": rng.randrange(1, 4), "per_waiter": rng.choice([1, 1, 2]),
            "s_receivers": rng.choice([0, 0, 1, 2]),     # threads blocked in recv() at the sending end
            "r_receivers": rng.choice([0, 0, 1, 2]),     # ... at the other end (mode inflight only: they have read everything)
            "unread": rng.choice([0, 1])}                # mode window: the receiving application has read the messages or not


class Gated:
    """One deterministic scenario on a lock-step pair (the harness turns the link; application threads block for real).
    send: the window the peer announced (RW 1..3) is full, `waiters` threads sit in blocking send() calls; the
    acknowledgement arrives and wakes one of them per RR; the woken threads are kept from re-acquiring the connection's
    lock (GateCond) while `thieves` further send() calls run and legitimately take the free slots; then the woken
    threads go on.  recv: the same for two threads in recv() and a message that a third recv() call takes first."""

    def __init__(self, cfg, st):
        from vf.sim.llcpair import LockstepPair, lockstep_connect
        import nfc.llcp
        self.L, self.cfg, self.st = nfc.llcp, cfg, st
        agf = cfg["agf"]
        x = self.x = cfg["end"]
        rws = {x: cfg["rw_back"], other(x): cfg["rw"]}
        c = cfg["client"]
        for attempt in range(4):
            # lockstep_connect() gives the helper thread inside connect() a bounded number of link turns to get
            # scheduled: on a starved machine it may not be (nothing about nfcpy) - the set-up is then repeated
            self.lp = LockstepPair({"miu": 248, "agf": bool(agf[0])}, {"miu": 248, "agf": bool(agf[1])})
            self.lp.keep_wire = False
            if not (self.lp.ok_a and self.lp.ok_b):
                raise Inconclusive("LLC activation failed")
            self.watch = WireWatch(Stats() if attempt < 3 else st)
            self.lp.observers.append(self.watch)
            try:
                cli, acc, srv = lockstep_connect(self.lp, c, 40, {"rw": rws[c]}, {"rw": rws[other(c)]})
                break
            except RuntimeError as e:
                if attempt == 3 or "did not return" not in str(e):
                    raise Inconclusive("connection set-up: %s" % e)
                st.inc("gated_setup_retries")
                time.sleep(0.05 * (attempt + 1))
        self.watch.st = st
        self.S, self.R = (cli, acc) if c == x else (acc, cli)
        self.viol = []
        self.threads = {}
        self.errors = []
        self.stamp = itertools.count()
        self.sends, self.rcvd = {}, {"main": []}
        self.ctr = 0
        self.moved = 0
        self.stop = False
        self.closing = False             # close class: set right before close() is called
        self.outcome = {}                # close class: how the call of a worker ended
        self.obs = []                    # close class: (mechanism, text) observed but not demanded by the statement
        self.close_errors = []           # close class: exceptions other than nfc.llcp.Error out of calls that ran into the close

    # -- workers ------------------------------------------------------------------------------------------
    def msg(self):
        self.ctr += 1
        return make_msg(self.x, self.ctr, 9)

    def spawn_sender(self, name, msgs, flags=0):
        recs = self.sends.setdefault(name, [])

        def run():
            try:
                for m in msgs:
                    rec = [m, next(self.stamp), None]
                    recs.append(rec)
                    ok = self.S.send(m, flags)
                    if ok is not True:
                        if ok is False and self.closing:       # close class: the connection went away under the call
                            self.outcome[name] = "returned-False"
                            return
                        self.errors.append((name, RuntimeError("send returned %r" % ok)))
                        return
                    rec[2] = next(self.stamp)
                self.outcome[name] = "done"
            except BaseException as e:
                if self.closing and isinstance(e, self.L.Error):
                    self.outcome[name] = "raised-" + errname(e)
                    return
                (self.close_errors if self.closing else self.errors).append((name, e))
        t = self.threads[name] = threading.Thread(target=run, name=name, daemon=True)
        t.start()
        return t

    def spawn_receiver(self, name, count, nones):
        got = self.rcvd.setdefault(name, [])

        def run():
            try:
                while len(got) < count and not self.stop:
                    m = self.R.recv()
                    if m is None:
                        nones.append(name)
                        if len(nones) > 50:
                            return
                    else:
                        got.append(m)
            except BaseException as e:
                self.errors.append((name, e))
        t = self.threads[name] = threading.Thread(target=run, name=name, daemon=True)
        t.start()
        return t

    def spawn_close_receiver(self, name, sock):
        """close class: recv() until it returns None or raises (the end of the connection)"""
        got = self.rcvd.setdefault(name, [])

        def run():
            try:
                while True:
                    m = sock.recv()
                    if m is None:
                        self.outcome[name] = "returned-None"
                        if self.closing:
                            return
                        self.nones.append(name)
                        if len(self.nones) > 50:
                            return
                    else:
                        got.append(m)
            except BaseException as e:
                if self.closing and isinstance(e, self.L.Error):
                    self.outcome[name] = "raised-" + errname(e)
                    return
                (self.close_errors if self.closing else self.errors).append((name, e))
        t = self.threads[name] = threading.Thread(target=run, name=name, daemon=True)
        t.start()
        return t

    def spawn_closer(self, sock):
        def run():
            try:
                sock.close()
                self.outcome["closer"] = "returned"
            except BaseException as e:
                if isinstance(e, self.L.Error):
                    self.outcome["closer"] = "raised-" + errname(e)
                    return
                self.close_errors.append(("closer", e))
        t = self.threads["closer"] = threading.Thread(target=run, name="closer", daemon=True)
        t.start()
        return t

    def settle(self, gate=None):
        """until every live worker sits in a Condition wait (or is parked by the gate)"""
        t0 = time.time()
        for t in self.threads.values():
            while t.is_alive():
                if gate is not None and (t.ident in gate.parked):
                    break
                info = wait_info(t)
                if info is not None and info[2] is True:       # registered waiter: not notified (a notified thread
                    break                                      # is still inside wait() but about to run)
                if time.time() - t0 > GATE_GUARD:
                    raise Inconclusive("gated scenario: %s neither blocked nor finished" % t.name)
                time.sleep(0)

    def pump(self):
        for e in "AB":
            f = self.watch.frame
            try:
                self.lp.turn(e)
            except Exception as ex:
                not_steering(ex)
                self.viol.append(("escape/turn/%s" % exc_sig(ex), "link turn of %s raised %r" % (e, ex)))
                raise StopIteration
            self.moved += self.watch.frame - f
            if self.watch.bad:
                raise StopIteration

    def recv_main(self, n):
        k = 0
        while k < n and self.R.poll("recv", 0):
            self.rcvd["main"].append(self.R.recv())
            k += 1
        self.moved += k
        return k

    def live(self):
        return [t for t in self.threads.values() if t.is_alive()]

    # -- scenarios ----------------------------------------------------------------------------------------
    def run(self):
        try:
            if self.cfg["kind"] == "recv":
                self.run_recv()
            elif self.cfg["kind"] == "close":
                self.run_close()
            else:
                self.run_send()
        except StopIteration:
            pass
        finally:
            for g in self.gates:
                g.hold = False
                g.go.set()
        try:
            return self.verdicts()
        finally:
            if self.cfg["kind"] == "close":
                self.release_blocked()

    gates = ()

    def run_send(self):
        cfg, st, m, x = self.cfg, self.st, self.watch.model, self.x
        rw = cfg["rw"]
        tco = steer(self.S, "_tco")
        gate = tco.send_token = GateCond(steer(tco, "send_token"))
        self.gates = [gate]
        # 1. earlier traffic, then the window is filled and stays unacknowledged (the receiver does not call recv())
        self.spawn_sender("fill", [self.msg() for _ in range(cfg["pre"] + rw)])
        for _ in range(4 * (cfg["pre"] + rw) + 8):
            self.settle()
            if not self.threads["fill"].is_alive():
                break
            self.pump()
            self.recv_main(cfg["pre"] - len(self.rcvd["main"]))
        self.pump()
        if self.threads["fill"].is_alive() or m.outstanding(x) != rw:
            st.inc("gated_window_not_filled")
            return self.drain()
        # 2. blocking senders queue up on the full window
        for i in range(cfg["waiters"]):
            self.spawn_sender("wait%d" % i, [self.msg() for _ in range(cfg["per_waiter"])])
            self.settle()                # one after the other: the order in which they wait is part of the case
        if len(gate.waiting) != cfg["waiters"]:
            st.inc("gated_waiters_not_parked")
            return self.drain()
        # 3. acknowledgements free `freed` slots; every RR wakes one waiter, which is held before it re-acquires the lock
        gate.hold = True
        per = [cfg["freed"] // cfg["ack_pdus"] + (i < cfg["freed"] % cfg["ack_pdus"]) for i in range(cfg["ack_pdus"])]
        for n in per:
            self.recv_main(n)
            acked = m.acked[x]
            for _ in range(3):
                self.pump()
                if m.acked[x] >= acked + n:
                    break
        woken = min(cfg["ack_pdus"], cfg["waiters"])
        if not gate.await_parked(woken) or m.outstanding(x) != rw - cfg["freed"]:
            st.inc("gated_wakeup_not_held")
            gate.hold = False
            gate.go.set()
            return self.drain()
        # 4. other send() calls get in first
        taken = 0
        for i in range(cfg["thieves"]):
            if cfg["thief_mode"] == "dontwait":
                msg = self.msg()
                rec = [msg, next(self.stamp), None]
                self.sends.setdefault("late%d" % i, []).append(rec)
                try:
                    ok = self.S.send(msg, self.L.MSG_DONTWAIT)
                except Exception as e:
                    self.errors.append(("late%d" % i, e))
                    break
                if ok is True:
                    rec[2] = next(self.stamp)
                    taken += 1
            else:
                t = self.spawn_sender("late%d" % i, [self.msg()])
                self.settle(gate)
                i_ = wait_info(t) if t.is_alive() else None
                taken += int(not t.is_alive() or (i_ is not None and i_[0].endswith("TransmissionControlObject.send")))
        if cfg["tx_first"]:
            self.pump()
            self.settle(gate)
        if taken:
            st.inc("gate_window_forced")
        st.inc("gate_window_forced_critical", int(taken and cfg["freed"] - taken < woken))
        rewaits = gate.rewaits
        # 5. the woken threads run
        gate.hold = False
        gate.go.set()
        t0 = time.time()
        while gate.parked and time.time() - t0 < GATE_GUARD:
            time.sleep(0)
        self.settle()
        st.inc("woken_window_full_again", gate.rewaits - rewaits)
        st.inc("gated_rewaits", gate.rewaits - rewaits)
        self.drain()

    def run_recv(self):
        cfg, st, x = self.cfg, self.st, self.x
        tco = steer(self.R, "_tco")
        gate = tco.recv_ready = GateCond(steer(tco, "recv_ready"))
        self.gates = [gate]
        total = cfg["pre"] % 4 + cfg["msgs"] + 2
        nones = self.nones = []
        # two threads wait in recv(); a message arrives and wakes one, which is held; a third recv() call takes it
        self.spawn_receiver("rcv0", 1 << 30, nones)
        self.settle()
        self.spawn_receiver("rcv1", 1 << 30, nones)
        self.settle()
        if len(gate.waiting) != 2:
            st.inc("gated_waiters_not_parked")
            return
        gate.hold = True
        n = min(cfg["msgs"], cfg["rw"])
        self.spawn_sender("snd", [self.msg() for _ in range(total)])
        for _ in range(3 * n + 3):
            self.settle(gate)
            self.pump()
            if len(self.watch.i_frame[x]) >= n:
                break
        self.pump()
        if not gate.await_parked(min(n, 2)):
            st.inc("gated_wakeup_not_held")
        else:
            took = self.recv_main(n)
            st.inc("gate_recv_window_forced", int(took > 0))
        gate.hold = False
        gate.go.set()
        # quiescence: everything the sender was given arrives at one of the three receivers
        idle = 0
        for _ in range(6 * total + 20):
            self.settle()
            self.moved = 0
            self.pump()
            got = sum(len(v) for v in self.rcvd.values())
            if got >= total and not self.threads["snd"].is_alive():
                break
            idle = 0 if self.moved else idle + 1
            if idle >= 4:
                break
        # let the receiver threads end: each further message is taken by one of them, which then sees the flag
        self.stop = True
        for i in range(8):
            if self.threads["snd"].is_alive() or not [t for t in self.live() if t.name.startswith("rcv")] or self.errors:
                break
            msg = self.msg()
            rec = [msg, next(self.stamp), None]
            try:
                if self.S.send(msg, self.L.MSG_DONTWAIT) is True:
                    rec[2] = next(self.stamp)
                    self.sends.setdefault("fin", []).append(rec)
            except self.L.Error:
                pass
            for _ in range(3):
                self.settle()
                self.pump()
        st.inc("recv_none_on_open_connection", len(nones))

    def run_close(self):
        """close class: close() by the sending end ('local') or by its peer ('peer': the DISC arrives) while 1-3 blocking
        send() calls sit on a full window (mode 'window') or one blocking send() has its I PDU still in the send queue
        (mode 'inflight'), with 0-2 threads blocked in recv() on either end.  Judged (what the statement demands): nothing
        is delivered twice or out of order, the window / sequence rules hold on the wire up to the DISC, and after a local
        close the peer's recv() still gets every I PDU that was on the wire before the DISC.  Observed and counted with a
        mechanism name, not judged: calls that never return (at link quiescence a worker is still a registered waiter of
        an untimed wait) and exceptions other than nfc.llcp.Error out of calls that run into the close."""
        cfg, st, m, x = self.cfg, self.st, self.watch.model, self.x
        rw, mode, who = cfg["rw"], cfg["mode"], cfg["who"]
        self.nones = []
        tco = steer(self.S, "_tco")
        gate = tco.send_token = GateCond(steer(tco, "send_token"))      # observation only: who waits for the window
        self.gates = [gate]
        # 1. earlier traffic; mode 'window': then the window is filled and stays unacknowledged (nobody calls recv())
        nfill = cfg["pre"] + (rw if mode == "window" else 0)
        if nfill:
            self.spawn_sender("fill", [self.msg() for _ in range(nfill)])
            for _ in range(4 * nfill + 8):
                self.settle()
                if not self.threads["fill"].is_alive():
                    break
                self.pump()
                self.recv_main(cfg["pre"] - len(self.rcvd["main"]))
            self.pump()
            self.recv_main(cfg["pre"] - len(self.rcvd["main"]))
            if mode != "window":
                self.pump()
            if self.threads["fill"].is_alive() or m.outstanding(x) != (rw if mode == "window" else 0):
                st.inc("gated_window_not_filled")
                return self.drain()
        # 2. blocking senders queue up on the full window / threads block in recv() on both ends
        for i in range(cfg["waiters"] if mode == "window" else 0):
            self.spawn_sender("wait%d" % i, [self.msg() for _ in range(cfg["per_waiter"])])
            self.settle()
        if mode == "window" and len(gate.waiting) != cfg["waiters"]:
            st.inc("gated_waiters_not_parked")
            return self.drain()
        for i in range(cfg["s_receivers"]):
            self.spawn_close_receiver("srcv%d" % i, self.S)
            self.settle()
        for i in range(cfg["r_receivers"] if mode != "window" else 0):
            self.spawn_close_receiver("rrcv%d" % i, self.R)
            self.settle()
        if mode == "inflight":
            # a blocking send() whose I PDU is in the send queue; the link has not collected it yet
            self.spawn_sender("infl", [self.msg()])
            self.settle()
            info = wait_info(self.threads["infl"]) if self.threads["infl"].is_alive() else None
            st.inc("gated_close_inflight_parked", int(bool(info and info[0].endswith("TransmissionControlObject.send"))))
        blocked_before = {t.name for t in self.live()}
        if not cfg.get("unread", 1):
            # the closing end's application has read everything (the acknowledgements have not been transmitted yet)
            self.recv_main(1 << 30)
        # 3. close(); its wait for the DM is served by the link turns below
        self.closing = True
        self.spawn_closer(self.S if who == "local" else self.R)
        self.settle()
        first = other(x) if who == "peer" else x          # the DISC travels before anything else the other end has
        idle = 0
        for rnd in range(80):
            self.moved = 0
            for e in ((first, other(first)) if rnd == 0 else "AB"):
                f = self.watch.frame
                try:
                    self.lp.turn(e)
                except Exception as ex:
                    not_steering(ex)
                    self.viol.append(("escape/turn/%s/after-close" % exc_sig(ex), "link turn of %s raised %r" % (e, ex)))
                    raise StopIteration
                self.moved += self.watch.frame - f
                self.settle()
            if self.watch.bad or not self.live():
                break
            idle = 0 if self.moved else idle + 1
            if idle >= 3:
                break
        st.inc("gated_close_scenarios")
        st.inc("gated_close_%s_%s" % (who, mode))
        # 4. "every call returns" is NOT part of the property statement: a worker that is still a registered waiter of an
        #    untimed wait now (link quiescent, DISC/DM exchange over) is an observation with a mechanism name, not a verdict
        undecided = []
        for t in self.live():
            info = wait_info(t)
            if info and info[1] and info[2] is True:
                role = t.name.rstrip("0123456789")
                self.obs.append(("stall/blocked-after-close/%s/%s/%s/%s" % (
                    who, role, ".".join(info[0].split(".")[-2:]), "disc-on-wire" if "DISC" in self.watch.first else "no-disc-on-wire"),
                                 "%s close(): %s still sits in an untimed wait inside %s as a registered waiter although the "
                                 "DISC/DM exchange is over and the link is quiescent (outcomes so far: %r)" % (
                                     who, t.name, info[0], self.outcome)))
            else:
                undecided.append(t.name)
        if undecided:
            raise Inconclusive("gated close scenario: workers %r neither returned nor blocked" % undecided)
        for name in blocked_before:
            if not self.threads[name].is_alive():
                st.inc("gated_close_blocked_calls_returned")
                st.inc("gated_close_returned_" + name.rstrip("0123456789"))
        # 5. the statement's part: after a local close the peer can still read what was transmitted before the DISC
        if who == "local" and "DISC" in self.watch.first and not self.viol and not self.watch.bad:
            try:
                self.recv_main(1 << 30)
            except self.L.Error:
                pass                    # a receiver thread of that end has consumed the disconnect indication
            got = sum(len(v) for v in self.rcvd.values())
            st.inc("gated_close_drain_checked")
            st.inc("gated_close_drain_messages", got)
            if got < m.sent[x]:
                self.viol.append(("deliver/lost-after-peer-close", "%s called close(); %d I PDUs were on the wire before "
                                  "the DISC, the peer's recv() returned %d" % (x, m.sent[x], got)))

    def release_blocked(self):
        """end of a close scenario: calls that never returned are ended by shutting both transmission control objects
        down on the harness side (what the link's termination would do), so that no worker thread is left behind"""
        import nfc.llcp.tco as TCO
        for sock in (self.S, self.R):
            try:
                tco = steer(sock, "_tco")
                with tco.lock:
                    TCO.TransmissionControlObject.close(tco)
                    for name in ("send_token", "acks_ready"):
                        getattr(tco, name).notify_all()
            except Exception:
                self.st.inc("gated_close_release_failed")
        for t in self.live():
            t.join(5)
        self.st.inc("gated_close_threads_left_behind", len(self.live()))

    def drain(self):
        """the receiver takes everything, the link turns until all senders returned; a round without any PDU and any
        recv() leaves the state unchanged (single driving thread, workers all blocked)"""
        idle = 0
        lazy = self.cfg.get("lazy_recv")
        for _ in range(400):
            self.settle()
            self.moved = 0
            self.pump()
            if not (lazy and self.moved):
                self.recv_main(1 << 30)
            if not self.live():
                if self.moved == 0:
                    return
                continue
            idle = 0 if self.moved else idle + 1
            if idle >= 3:
                break
        m, x = self.watch.model, self.x
        for t in self.live():
            info = wait_info(t)
            if info and info[1] and info[2] is True:
                self.viol.append(("stall/blocked-at-quiescence/send/%s" % ".".join(info[0].split(".")[-2:]),
                                  "%s sits in an untimed wait inside %s as a registered waiter although the link is "
                                  "quiescent, the receiver has taken every message and the wire shows %d of RW=%d I PDUs "
                                  "outstanding" % (t.name, info[0], m.outstanding(x), m.rw.get(other(x), -1))))
                return
        if self.live():
            raise Inconclusive("gated scenario: senders neither returned nor provably stalled")

    def verdicts(self):
        L, x = self.L, self.x
        viol = [("window/" + clause, text) for clause, text in self.watch.bad] + self.viol
        esc = []
        tag = "gated-close-before-close/" if self.cfg["kind"] == "close" else "gated-"
        for name, e in self.errors:
            if isinstance(e, L.Error):
                esc.append(("api/%s%s/unexpected-%s" % (tag, name[:4], errname(e)), "%s raised %r on an open connection" % (name, e)))
            else:
                not_steering(e)
                esc.append(("escape/%s%s/%s" % (tag, name[:4], exc_sig(e)), "%s raised %r" % (name, e)))
        viol = viol + esc
        if self.cfg["kind"] == "close":
            # what calls that run into a close() raise is not part of the property statement: observed, not judged
            for name, e in self.close_errors:
                not_steering(e)
                self.obs.insert(0, ("escape/gated-close/%s/%s" % (name[:4], exc_sig(e)), "%s raised %r" % (name, e)))
            for sig, _ in self.obs:
                self.st.inc("close_obs:" + sig)
        if self.watch.undecodable:
            viol.append(("wire/undecodable", "%d frames rejected by the reference decoder" % self.watch.undecodable))
        complete = (not viol and not self.closing
                    and not [t for t in self.live() if t.name.startswith(("fill", "wait", "late", "snd"))])
        got = sum(len(v) for v in self.rcvd.values())
        self.st.inc("recv_compared", got)
        self.st.inc("gated_messages_delivered", got)
        bad = judge_delivery("%s>%s" % (x, other(x)), self.sends, self.rcvd, complete)
        if bad:
            viol.append(("deliver/" + bad[0], bad[1]))
        elif complete:
            self.st.inc("quiescence_equal_checked")
            self.st.inc("gated_scenarios_completed")
        elif self.closing and not viol:
            self.st.inc("gated_close_scenarios_completed")
            for name, how in self.outcome.items():
                self.st.inc("gated_close_outcome_%s_%s" % (name.rstrip("0123456789"), how))
        return viol


def gated_run(cfg, st, obs=None):
    g = Gated(cfg, st)
    st.inc("gated_scenarios")
    st.inc("gated_scenarios_" + cfg["kind"])
    try:
        return g.run()
    finally:
        if obs is not None:
            obs.extend((sig, what, cfg) for sig, what in g.obs)


def random_thread_cfg(rng, desc, greet, multi=False, close=False):
    lm = [rng.choice([128, 248, 1000, 2175]) for _ in "AB"]
    n_lo, n_hi = desc["n_lo"], desc["n_hi"]
    if multi:
        # several application threads share the socket of an end: 2-4 blocking senders queue up on a small window the
        # peer announced (RW 1..3), 1-2 blocking receivers
        ns = [rng.choice([2, 3, 4]), rng.choice([1, 2, 3])]
        rng.shuffle(ns)
        cfg = random_thread_cfg(rng, desc, greet)
        cfg.update(senders=ns, receivers=[rng.choice([1, 1, 2]) for _ in "AB"],
                   p_wake_delay=rng.choice([0.3, 0.6, 0.9]))
        for i in (0, 1):
            if ns[1 - i] > 1:
                cfg["rw"][i] = rng.choice([1, 1, 2, 3])
        return cfg
    cfg = {"rw": [rng.choice([1, 1, 2, 3, 7, 15, rng.randrange(1, 16)]) for _ in "AB"],
           "agf": [int(rng.random() < 0.6), int(rng.random() < 0.6)], "link_miu": lm,
           "rcv_miu": [rng.choice([None, 128, 200, lm[i]]) for i in (0, 1)],
           "client": rng.choice("AB"), "greet": int(greet), "busy": int(rng.random() < 0.7),
           "n": [rng.randrange(n_lo, n_hi + 1), rng.randrange(n_lo, n_hi + 1)],
           "p_yield": rng.choice([0.005, 0.02, 0.05]), "p_sleep": rng.choice([0.0, 0.001, 0.003]),
           "seed": rng.randrange(1 << 30)}
    if close:
        # close class: one end calls close() while 1-3 blocking senders of either end work against a small window and
        # the receivers are blocked in recv(); `quiet`: the closing end receives nothing (no traffic towards it, no
        # receiver threads there), so that its close() finds an empty receive queue
        who = rng.choice("AB")
        i, j = "AB".index(who), 1 - "AB".index(who)
        quiet = rng.random() < 0.6
        ns, nr = [rng.randrange(1, 4), rng.randrange(1, 4)], [rng.choice([1, 1, 2]), rng.choice([1, 1, 2])]
        if quiet:
            cfg["n"][j] = 0
            ns[j], nr[i] = 0, 0
        cfg["rw"] = [rng.choice([1, 1, 2, 3]) for _ in "AB"]
        cfg.update(senders=ns, receivers=nr, greet=0, busy=0,
                   close={"who": who, "after": rng.choice([1, 5, 17, 40]), "quiet": int(quiet)})
    return cfg


def run_threaded(desc, R, rng):
    from vf.core import contracts
    contracts.install_pdu_length_contract()
    c0 = contracts.COUNTS.get("pdu_len_contract", 0)
    st = Stats()                # forced schedules (gated)
    ts = Stats()                # random threaded runs: counters of their own, so that each monitor has to observe traffic
    ngated, nclose = desc.get("gated", 0), desc.get("gated_close", 0)
    obs = []                    # close class: mechanisms observed that the property statement does not rule out
    for i in range(ngated + nclose):
        cfg = random_gated_cfg(rng) if i < ngated else random_gated_close_cfg(rng)
        key = ("gated", json.dumps(cfg, sort_keys=True))
        try:
            viol = gated_run(cfg, st, obs)
        except (Inconclusive, AttributeError, KeyError) as e:
            if not isinstance(e, Inconclusive) and not steering_fault(e):
                raise
            R.inconc("gated scenario: %s: %s" % (type(e).__name__, e))
            R.case(key, nontrivial=False)
            continue
        R.case(key)
        if i in (0, ngated):
            R.sample({"gated_cfg": cfg})
        for sig, what in viol[:1]:
            R.violation(sig, what, {"kind": "gated", "cfg": cfg})
    t0 = time.time()
    for i in range(desc["runs"] + desc.get("close_runs", 0)):
        if time.time() - t0 > desc["budget"]:
            ts.inc("threaded_runs_skipped_budget")      # coverage only, never a verdict
            continue
        is_close = i >= desc["runs"]
        cfg = random_thread_cfg(rng, desc, greet=(i % 6 == desc.get("greet_run", -1)) and not is_close,
                                multi=(i % 6 in desc.get("multi_runs", ())) and not is_close, close=is_close)
        ts.inc("threaded_runs")
        ts.inc("multi_sender_runs", int("senders" in cfg and not is_close))
        ts.inc("thr_close_runs", int(is_close))
        try:
            viol = threaded_run(cfg, R, rng, ts, obs=obs)
        except (Inconclusive, AttributeError, KeyError) as e:
            if not isinstance(e, Inconclusive) and not steering_fault(e):
                raise
            R.inconc("threaded run: %s: %s" % (type(e).__name__, e))
            R.case(("thr", json.dumps(cfg, sort_keys=True)), nontrivial=False)
            continue
        R.case(("thr", json.dumps(cfg, sort_keys=True)))
        if i == 0:
            R.sample({"threaded_cfg": cfg})
        for sig, what in viol[:1]:              # first violation of a run; the rest are consequences
            R.violation(sig, what, {"kind": "threaded", "cfg": cfg})
    sampled = set()
    for sig, what, cfg in obs:
        R.seen("close_class_observations_not_judged", sig)
        if cfg.get("kind") != "close":
            R.count("close_obs:" + sig)          # threaded run (the forced scenarios count theirs in Gated.verdicts)
        if sig not in sampled and len(sampled) < 6:
            sampled.add(sig)
            R.sample({"close_class_observation_not_judged": sig, "what": what, "cfg": cfg})
    for k in ("pdu_I", "pdu_RR", "pdu_RNR", "ns_wraps", "window_full_events", "rnr_episodes"):
        R.count("thr_" + k, ts.get(k, 0))
        R.count("gated_" + k, st.get(k, 0))
    for src in (st, ts):
        for k, v in src.items():
            if k.startswith("max_"):
                R.max(k, v)
            else:
                R.count(k, v)
    R.count("pdu_len_contract", contracts.COUNTS.get("pdu_len_contract", 0) - c0)


# ---------------------------------------------------------------------------------------------------------------
def run(desc, R, rng):
    if desc["kind"] == "lockstep":
        run_lockstep(desc, R, rng)
    else:
        run_threaded(desc, R, rng)


def replay(case, R):
    if case.get("kind") == "lockstep":
        st = Stats()
        try:
            run_history(case["cfg"], case["ops"], st)
            R.case("replay")
        except Violation as v:
            R.case("replay")
            R.violation(v.sig, v.what, case)
        except Inconclusive as e:
            R.inconc(str(e))
        for k, v in st.items():
            R.count(k, v)
        return
    cfg = dict(case["cfg"])
    if case.get("kind") == "gated":
        st = Stats()
        try:
            viol = gated_run(cfg, st)
        except Inconclusive as e:
            R.inconc(str(e))
            return
        R.case("replay")
        for k, v in st.items():
            R.count(k, v)
        if viol:
            R.violation(viol[0][0], viol[0][1], case)
        return
    for attempt in range(5):            # thread schedules are not reproducible: a few attempts with the same set-up
        st = Stats()
        try:
            viol = threaded_run(dict(cfg), R, random.Random(cfg.get("seed", 0) + attempt), st)
        except Inconclusive as e:
            R.inconc(str(e))
            return
        R.case(("replay", attempt))
        for k, v in st.items():
            R.count(k, v)
        if viol:
            R.violation(viol[0][0], viol[0][1], case)
            return
