"""C05 - LLCP data link connections deliver in order, exactly once, within the window.

Two monitors, both on two real nfc.llcp.llc.LogicalLinkController objects joined at PDU level (vf.sim.llcpair):

1. lock-step histories (single-threaded, deterministic): application calls on both ends
   (send(MSG_DONTWAIT), recv after poll("recv",0), poll, setsockopt(SO_RCVBSY), close) interleaved with strictly
   alternating link turns; bounded-exhaustive enumeration of short histories and long random walks over
   RW 0..15 / connection MIU 128..2175 / aggregation on-off / which end connects / "early" set-ups: 1 = the
   accepting end may act before the CC has left, 2 = additionally the thread inside connect() runs again only at an
   explicit step J (it "was not scheduled" for some link turns). connect()/close() block by design: their waits
   turn the link (PumpCond) or, in the early set-ups, sit in a helper thread whose progress the history controls.
2. thread stress: both real run() loops, blocking sender and receiver threads on the connection's two sockets,
   yield injection through sys.monitoring LINE events in nfc/llcp/tco.py and llc.py.  Half of the runs have one
   sender and one receiver thread per end; in the others 2-4 sender threads (and 1-2 receiver threads) share the
   socket of an end and the peer announces RW 1..3, so that the senders queue up on the window and every
   acknowledgement is contended (a woken sender is additionally delayed at random before it re-acquires the lock).
3. forced schedules (Gated): the same contention made deterministic on a lock-step pair: the window is full, 1-3
   threads sit in blocking send() calls, the acknowledgement(s) arrive, the woken threads are held back before they
   re-acquire the connection's lock (GateCond, a delegating stand-in for the connection's Condition installed on the
   harness side) while further send() calls (blocking threads or MSG_DONTWAIT) take the freed slots, then the
   woken threads run; the receiver is prompt or calls recv() only when the link went quiet.  Same for two threads
   in recv() and a message that a third recv() takes first (observation: recv() then returns None on an open
   connection - not judged, no message is lost).

Oracles (identical in both):
  deliver/*   per direction the messages returned by recv() are a prefix of the messages accepted by send(),
              exactly once and in order; equal at quiescence unless close() was called on the connection.  With
              several threads on a socket "in order" is what the harness can know: m1 before m2 whenever send(m1)
              had returned before send(m2) was called (always within one sender thread), judged per receiver
              thread; no duplicates; multiset equality at quiescence (judge_delivery)
  window/*    vf.ref.window_model over the wire PDUs as decoded by vf.ref.llcp_ref (RW/MIU from CONNECT/CC on the
              wire); a send refused with EWOULDBLOCK although fewer than RW(peer) of the accepted messages are
              unacknowledged on the wire
  miu/*       send(len > MIU announced by the peer) must be refused with EMSGSIZE and never show up anywhere
  escape/*    a link turn or an application call raises something the API does not document
  stall/*     (threads) an application thread sits in an untimed Condition.wait(), was never notified, although the
              wire shows that the event it waits for has happened (lost wake-up); decided from the wire log and
              the waiter registration, never from wall-clock time
The first violation of a history ends it (later symptoms are consequences of the same state).
"""
import errno
import hashlib
import itertools
import json
import random
import sys
import threading
import time

from vf.core.rec import exc_sig
from vf.ref import llcp_ref as ref
from vf.ref.window_model import WindowModel

ID = "C05"
LEVEL = "exploration"
RULE = ("cases = (a) every history of length <= depth (quick 6, thorough 6 over the full and 8 over a reduced alphabet) "
        "over {link turn, send/recv/busy-toggle/close on either end, 'connect() returns'} for 12 "
        "window/aggregation/set-up configurations; a history is cut at its first no-op step (covered by the shorter "
        "history) and calls on different ends without a link turn in between are executed in one order only "
        "(they commute), (b) random walks of 2000 (thorough 5000) steps with traffic profiles that change every "
        "~100 steps over random RW 0..15, connection MIU 128..2175, link MIU, aggregation, connecting end, 20% of "
        "them with application calls on the accepting end before the CC left / before connect() returned, "
        "(c) threaded runs with blocking calls, 50-500 messages per direction, randomised yields, half of them with "
        "2-4 sender and 1-2 receiver threads per socket and RW 1..3 announced to the senders, (d) forced schedules "
        "over RW 1..3 x 1-3 blocked senders x slots freed x number of RR PDUs x late-coming send() calls x N(S) "
        "position x prompt/lazy receiver in which a woken sender is held before it re-acquires the lock; a case is distinct "
        "by (configuration, operation list) resp. (configuration incl. seeds) and non-trivial when at least one "
        "I PDU went through the window model and one recv() was compared with the accepted sends")
ASSUMPTIONS = ["vf.ref.llcp_ref decodes I/RR/RNR/CONNECT/CC as LLCP 1.3 section 4 defines them",
               "vf.ref.window_model is a faithful reading of the LLCP 1.3 sliding window rules (N(S) from 0, "
               "N(R) acknowledges, at most RW(receiver) unacknowledged I PDUs)",
               "link turns strictly alternate (initiator first) as NFC-DEP forces them to; the MAC below the LLC "
               "is loss free (C04 covers the MAC)",
               "thread schedules are sampled with random yields, not enumerated to a preemption bound",
               "a thread that gives the connection's lock up again right after Condition.wait() returned (GateCond) is "
               "indistinguishable from a notified thread that has not been scheduled yet",
               "after close() on either end only the prefix/exactly-once part of the delivery oracle applies",
               "lost wake-ups are recognised through CPython's threading.Condition waiter registration"]
REQUIRED = ["pdu_I", "pdu_RR", "pdu_RNR", "ns_wraps", "window_full_events", "rnr_episodes", "histories_enumerated",
            "walks", "recv_compared", "quiescence_equal_checked", "emsgsize_checked", "threaded_runs_completed",
            "threaded_messages_delivered", "thread_switches", "pdu_len_contract", "acks_polls_true",
            "acks_polls_true_after_wrap", "multi_sender_runs_completed", "gated_scenarios_completed",
            "gate_window_forced", "woken_window_full_again"]

EX_CONFIGS = [  # bounded-exhaustive configurations: RW(A), RW(B), aggregation, early (accepting end acts before the CC left)
    {"rw": [1, 1], "agf": 0, "early": 0}, {"rw": [1, 1], "agf": 1, "early": 0},
    {"rw": [2, 1], "agf": 0, "early": 0}, {"rw": [1, 2], "agf": 1, "early": 0},
    {"rw": [2, 2], "agf": 0, "early": 0}, {"rw": [2, 2], "agf": 1, "early": 0},
    {"rw": [0, 1], "agf": 0, "early": 0}, {"rw": [3, 1], "agf": 1, "early": 0},
    {"rw": [1, 3], "agf": 0, "early": 0}, {"rw": [15, 2], "agf": 1, "early": 0},
    {"rw": [1, 1], "agf": 0, "early": 1}, {"rw": [2, 2], "agf": 1, "early": 2},
]
ALPHA_EARLY = ["T", "sB", "rB", "bB", "sA", "rA", "J"]     # early configurations: B accepts, A connects
ALPHA_FULL = ["T", "sA", "sB", "rA", "rB", "bA", "bB", "cA", "cB"]
ALPHA_QUICK = ["T", "sA", "sB", "rA", "rB", "bB", "cA"]
ALPHA_DEEP = ["T", "sA", "sB", "rA", "rB", "bB"]


def plan(tier, seed):
    out = []
    for i in range(12):
        ex = dict(EX_CONFIGS[i])
        d = {"kind": "lockstep", "ex": ex, "invariants": i % 2}
        if tier == "quick":
            d.update(depth=6, alphabet=ALPHA_QUICK, walks=70, steps=2000, timeout=600)
            if ex["early"]:
                d.update(depth=5, alphabet=ALPHA_EARLY)
        else:
            d.update(depth=6, alphabet=ALPHA_FULL, walks=400, steps=5000, timeout=3000)
            if ex["early"]:
                d.update(depth=6, alphabet=ALPHA_EARLY)
            else:
                d.update(depth2=8, alphabet2=ALPHA_DEEP)
        out.append(d)
    for i in range(4):
        d = {"kind": "threaded", "greet_run": 1, "multi_runs": [2, 3, 5], "gated": 40 if tier == "quick" else 400}
        if tier == "quick":
            d.update(runs=6, n_lo=50, n_hi=220, budget=25, timeout=600)
        else:
            d.update(runs=40, n_lo=50, n_hi=500, budget=300, timeout=3000)
        out.append(d)
    return out


# ---------------------------------------------------------------------------------------------------------------
class Violation(Exception):
    def __init__(self, sig, what):
        Exception.__init__(self, sig, what)
        self.sig, self.what = sig, what


class Inconclusive(Exception):
    pass


def other(e):
    return "B" if e == "A" else "A"


def make_msg(end, ctr, n):
    """message with a unique id (end, counter) in its first 5 bytes; shorter ones repeat the counter's low byte"""
    if n >= 5:
        return end.encode() + ctr.to_bytes(4, "big") + bytes((ctr + i) & 255 for i in range(n - 5))
    return bytes([ctr & 255]) * n


def errname(e):
    return errno.errorcode.get(getattr(e, "errno", None), str(getattr(e, "errno", "?")))


class Stats(dict):
    def inc(self, k, n=1):
        self[k] = self.get(k, 0) + n

    def mx(self, k, v):
        if v > self.get(k, -1):
            self[k] = v


class PumpCond:
    """stands in for a socket's receive Condition while connect()/close() run in the (only) driving thread:
    an untimed wait() lets the harness turn the link instead of blocking; everything else is the real object"""

    def __init__(self, real, pump):
        self._real, self._pump = real, pump

    def __enter__(self):
        return self._real.__enter__()

    def __exit__(self, *a):
        return self._real.__exit__(*a)

    def wait(self, timeout=None):
        if timeout is None:
            self._pump()
            return True
        return self._real.wait(timeout)

    def __getattr__(self, name):
        return getattr(self._real, name)


def thread_blocked(th):
    """True when the thread's innermost Python frame is threading.Condition.wait (it registered as a waiter)"""
    f = sys._current_frames().get(th.ident)
    return (f is not None and f.f_code.co_name == "wait" and f.f_code.co_filename.endswith("threading.py")
            and "waiter" in f.f_locals)


class Exec:
    """executes one lock-step history against two real LLCs and evaluates the oracles online"""

    def __init__(self, cfg, st):
        import nfc.llcp
        import nfc.llcp.pdu as P
        from vf.sim.llcpair import LockstepPair
        self.nfc, self.P, self.cfg, self.st = nfc, P, cfg, st
        self.DONTWAIT = nfc.llcp.MSG_DONTWAIT
        lm, agf = cfg.get("link_miu", [248, 248]), cfg.get("agf", [1, 1])
        self.lp = LockstepPair({"miu": lm[0], "agf": bool(agf[0])}, {"miu": lm[1], "agf": bool(agf[1])})
        self.lp.keep_wire = False
        if not (self.lp.ok_a and self.lp.ok_b):
            raise Inconclusive("LLC activation failed")
        self.model = WindowModel()
        self.next_turn = "A"
        self.sock = {"A": None, "B": None}
        self.sent = {"A": [], "B": []}
        self.rcvd = {"A": [], "B": []}
        self.ctr = {"A": 0, "B": 0}
        self.closed = {"A": False, "B": False}
        self.any_close = False
        self.refused = set()
        self.ann_busy = {"A": False, "B": False}
        self.last_leaves = []
        self.i_seen = 0
        self.acks_polled = {"A": 0, "B": 0}      # poll("acks") calls that returned True, per end
        self.compared = 0
        self.prev_symm = False
        self.held = None
        self.cc_delivered = False
        self.ctx = ""                # structural context appended to the signature of a later violation
        self.helper = None           # (end, thread, result) of a connect() still blocked (early mode)
        self.trace = []
        self._connect()

    # -- set-up -------------------------------------------------------------------------------------------
    def _opts(self, sock, i):
        L = self.nfc.llcp
        m = self.cfg.get("rcv_miu", [None, None])[i]
        if m is not None:
            sock.setsockopt(L.SO_RCVMIU, m)
        got = sock.setsockopt(L.SO_RCVBUF, self.cfg["rw"][i])
        if got != self.cfg["rw"][i]:
            raise Inconclusive("socket API does not accept RW=%r (got %r)" % (self.cfg["rw"][i], got))

    def _connect(self):
        L = self.nfc.llcp
        c = self.cfg.get("client", "A")
        s = other(c)
        srv = L.Socket(self.lp.llc(s), L.DATA_LINK_CONNECTION)
        self._opts(srv, "AB".index(s))
        srv.bind(40)
        srv.listen(1)
        cli = L.Socket(self.lp.llc(c), L.DATA_LINK_CONNECTION)
        self._opts(cli, "AB".index(c))
        self.srv, self.client, self.server = srv, c, s
        self.connect_done = False

        def accept_when_ready():
            if self.sock[s] is None and any(x["t"] == "CONNECT" for x in self.last_leaves):
                self.sock[s] = srv.accept()

        if self.cfg.get("early"):
            res = {}

            def run():
                try:
                    cli.connect(40)
                    res["ok"] = True
                except BaseException as e:
                    res["exc"] = e
            th = threading.Thread(target=run, daemon=True)
            th.start()
            self._wait_blocked(th)
            self.helper = (c, th, res)
            self.sock[c] = cli
            if self.cfg["early"] == 2:
                # "the thread inside connect() is not scheduled before step J": the driving thread keeps the socket's
                # (re-entrant) lock, so the woken connect() cannot leave its wait; link turns run in the driving thread
                self.held = cli._tco.lock
                self.held.acquire()
            for _ in range(4):
                self.turn()
                accept_when_ready()
                if self.sock[s] is not None:
                    break
            else:
                raise Inconclusive("CONNECT did not reach the listening socket")
            return

        def pump():
            for _ in range(8):
                self.turn()
                accept_when_ready()
                if any(x["t"] in ("CC", "DM") for x in self.last_leaves) and self.last_dir == s:
                    return
        tco = cli._tco
        real = tco.recv_ready
        tco.recv_ready = PumpCond(real, pump)
        try:
            cli.connect(40)
        finally:
            tco.recv_ready = real
        self.sock[c] = cli
        self.connect_done = True
        if self.sock[s] is None:
            raise Inconclusive("connect() returned without an accepted socket")

    def _wait_blocked(self, th, limit=20000):
        for _ in range(limit):
            if not th.is_alive() or thread_blocked(th):
                return
            time.sleep(0)
        raise Inconclusive("helper thread neither blocked nor finished")

    def usable(self, end):
        if self.sock[end] is None or self.closed[end]:
            return False
        return not (self.helper and self.helper[0] == end)

    # -- link ---------------------------------------------------------------------------------------------
    def turn(self):
        P, st = self.P, self.st
        x = self.next_turn
        y = other(x)
        self.next_turn = y
        self.last_dir, self.last_leaves = x, []
        src, dst = self.lp.llc(x), self.lp.llc(y)
        after = "/after-close" if self.closed[x] else ""
        try:
            p = src.collect()
        except Exception as e:
            raise Violation("escape/collect/%s%s" % (exc_sig(e), after), "collect() raised %r" % e)
        if p is None:
            st.inc("symm_turns")
            return False
        try:
            enc = P.encode(p)
        except Exception as e:
            names = []
            for q in (list(p) if p.name == "AGF" else [p]):
                try:
                    P.encode(q)
                except Exception:
                    names.append(q.name)
            raise Violation("escape/encode/%s/%s%s" % (exc_sig(e), "+".join(sorted(set(names))) or p.name, after),
                            "the PDU collected for transmission cannot be encoded: %r (%s)" % (e, str(p)[:80]))
        st.inc("link_turns")
        try:
            leaves = ref.flatten(ref.decode(enc))
        except ref.Reject as e:
            raise Violation("wire/undecodable", "reference decoder rejects a transmitted frame: %s" % e)
        if len(leaves) > 1:
            st.inc("aggregated_frames")
        self.last_leaves = leaves
        for d in leaves:
            self.observe(x, d)
            if self.helper and self.helper[0] == y:
                if d["t"] in ("CC", "DM"):
                    self.cc_delivered = True
                elif d["t"] == "I" and self.cc_delivered:
                    # an I PDU reaches the connecting end after the CC, but its connect() has not returned yet
                    self.ctx = "/i-after-cc-before-connect-returned"
        try:
            dst.dispatch(P.decode(enc))
        except Exception as e:
            raise Violation("escape/dispatch/%s" % exc_sig(e), "dispatch() raised %r" % e)
        if self.helper and self.helper[0] == y and self.cc_delivered and self.held is None:
            self.join_connect()
        return True

    def join_connect(self):
        end, th, res = self.helper
        if self.held is not None:
            self.held.release()
            self.held = None
        th.join(20)
        if th.is_alive():
            raise Inconclusive("connect() did not return after the CC was delivered")
        self.helper = None
        self.connect_done = True
        if "exc" in res:
            raise Violation("escape/connect/%s" % exc_sig(res["exc"]), "connect() raised %r" % res["exc"])

    def op_J(self, end):
        """(early=2) the thread inside connect() gets to run now"""
        if not (self.helper and self.cc_delivered):
            return True
        self.join_connect()
        return False

    def observe(self, x, d):
        st, m, t = self.st, self.model, d["t"]
        st.inc("pdu_" + t)
        if t == "RNR":
            if not self.ann_busy[x]:
                st.inc("rnr_episodes")
            self.ann_busy[x] = True
        elif t == "RR":
            self.ann_busy[x] = False
        elif t == "I":
            self.i_seen += 1
            if d["data"] in self.refused:
                raise Violation("miu/refused-message-transmitted" if len(d["data"]) > m.miu.get(other(x), 1 << 30)
                                else "window/refused-message-transmitted",
                                "a message send() refused is on the wire (%d bytes)" % len(d["data"]))
        wraps, full = m.wraps, m.full
        bad = m.feed(x, d)
        st.inc("ns_wraps", m.wraps - wraps)
        st.inc("window_full_events", m.full - full)
        if t == "I":
            st.mx("max_outstanding", m.outstanding(x))
            if m.rw.get(other(x)) == 15 and m.outstanding(x) == 15:
                st.inc("window_full_at_rw15")
        if bad:
            clause, detail = bad[0]
            if clause == "pdu-before-cc":
                clause += "/" + t
            raise Violation("window/" + clause, "%s>%s %s: %s (RW announced A=%s B=%s)" % (
                x, other(x), t, detail, m.rw.get("A"), m.rw.get("B")))

    # -- application operations ---------------------------------------------------------------------------
    def do(self, op):
        """returns True when the operation was a no-op (refused / nothing to do)"""
        k = op[0]
        if k == "T":
            symm = not self.turn()
            noop = symm and self.prev_symm       # two empty turns in a row: same state, same side to move
            self.prev_symm = symm
            return noop
        self.prev_symm = False
        if k == "J":
            return self.op_J(self.client)
        end = op[1]
        if not self.usable(end):
            return True
        return getattr(self, "op_" + k)(end, *op[2:])

    def _api_error(self, call, e):
        """an nfc.llcp.Error other than the ones the property talks about: only acceptable once close() was called"""
        if isinstance(e, self.nfc.llcp.Error):
            if self.any_close:
                self.st.inc("errors_after_close")
                return True
            raise Violation("api/%s/unexpected-%s" % (call, errname(e)),
                            "%s raised %r on a connection nobody closed" % (call, e))
        raise Violation("escape/%s/%s%s" % (call, exc_sig(e), "/after-close" if self.any_close else ""),
                        "%s raised %r" % (call, e))

    def op_s(self, end, n):
        st, m, L = self.st, self.model, self.nfc.llcp
        peer = other(end)
        msg = make_msg(end, self.ctr[end], n)
        self.ctr[end] += 1
        miu = m.miu[peer]
        unacked = len(self.sent[end]) - m.acked[end]
        try:
            ok = self.sock[end].send(msg, self.DONTWAIT)
        except L.Error as e:
            if n >= 5:
                self.refused.add(msg)
            if e.errno == errno.EMSGSIZE:
                if n <= miu:
                    raise Violation("miu/refused-within-miu", "send(%d bytes) -> EMSGSIZE, peer announced MIU %d" % (n, miu))
                st.inc("emsgsize_checked")
                return True
            if e.errno == errno.EWOULDBLOCK:
                if n > miu:
                    st.inc("oversize_refused_wouldblock")
                elif unacked < m.rw[peer] and not self.any_close:
                    raise Violation("window/send-refused-while-open",
                                    "send() -> EWOULDBLOCK with %d of RW(%s)=%d accepted messages unacknowledged on "
                                    "the wire" % (unacked, peer, m.rw[peer]))
                st.inc("send_wouldblock")
                return True
            return self._api_error("send", e)
        except Exception as e:
            return self._api_error("send", e)
        if ok is True:
            if n > miu:
                raise Violation("miu/oversize-accepted", "send(%d bytes) accepted, peer announced MIU %d" % (n, miu))
            self.sent[end].append(msg)
            st.inc("send_accepted")
            st.mx("max_msg_len", n)
            return False
        if n >= 5:
            self.refused.add(msg)
        if not self.any_close:
            raise Violation("api/send/returned-%r-without-close" % ok, "send() returned %r" % ok)
        return True

    def op_r(self, end):
        try:
            ready = self.sock[end].poll("recv", 0)
        except Exception as e:
            return self._api_error("poll", e)
        if not ready:
            return True
        try:
            msg = self.sock[end].recv()
        except Exception as e:
            return self._api_error("recv", e)
        self.check_recv(end, msg)
        return False

    def check_recv(self, end, msg):
        got, acc = self.rcvd[end], self.sent[other(end)]
        d = "%s>%s" % (other(end), end)
        if not isinstance(msg, (bytes, bytearray)):
            if msg is None and self.any_close:
                return
            raise Violation("deliver/recv-returned-%s" % type(msg).__name__, "%s recv() after poll('recv')=True returned %r" % (d, msg))
        msg = bytes(msg)
        k = len(got)
        self.st.inc("recv_compared")
        self.compared += 1
        if k < len(acc) and acc[k] == msg:
            got.append(msg)
            return
        if len(msg) >= 5 and msg in acc[:k]:
            raise Violation("deliver/duplicate", "%s message #%d delivered again as #%d" % (d, acc.index(msg), k))
        if msg in acc[k + 1:]:
            raise Violation("deliver/lost-or-reordered", "%s recv #%d returned accepted message #%d" % (d, k, acc.index(msg, k + 1)))
        raise Violation("deliver/never-accepted", "%s recv #%d returned %d bytes no send() accepted at that position" % (d, k, len(msg)))

    def op_b(self, end, v):
        try:
            self.sock[end].setsockopt(self.nfc.llcp.SO_RCVBSY, bool(v))
            self.st.inc("busy_set" if v else "busy_cleared")
        except Exception as e:
            return self._api_error("setsockopt", e)
        return False

    def op_p(self, end, ev):
        try:
            r = self.sock[end].poll(ev, 0)
            self.st.inc("polls")
        except Exception as e:
            return self._api_error("poll", e)
        if ev == "acks":
            self.check_acks_poll(end, r)
        return False

    def check_acks_poll(self, end, r):
        """poll("acks") is documented to return True iff the counter of received acknowledgements is > 0 and
        then to decrement it: between link turns that counter is exactly (I PDUs of this end acknowledged by N(R)
        values on the wire, per the reference window model) - (polls that returned True)"""
        m, st = self.model, self.st
        if not m.established or m.closed or self.any_close:
            return
        avail = m.acked[end] - self.acks_polled[end]
        st.inc("acks_polls_judged")
        if r is True:
            self.acks_polled[end] += 1
            st.inc("acks_polls_true")
            if m.acked[end] > 16:
                st.inc("acks_polls_true_after_wrap")
        if avail > 0 and r is not True:
            raise Violation("acks/poll-false-with-acknowledgements-pending" + ("/after-wrap" if m.sent[end] >= 16 else ""),
                            "poll('acks') -> %r at %s with %d acknowledged on the wire and %d consumed" % (
                                r, end, m.acked[end], self.acks_polled[end]))
        if avail <= 0 and r is True:
            raise Violation("acks/poll-true-without-acknowledgement",
                            "poll('acks') -> True at %s with %d acknowledged on the wire and %d consumed before" % (
                                end, m.acked[end], self.acks_polled[end] - 1))

    def op_c(self, end):
        """close(): its wait for the DM turns the link (bounded); returns when close() returns"""
        sock = self.sock[end]
        self.closed[end] = self.any_close = True
        self.st.inc("closes")

        def pump():
            for _ in range(8):
                self.turn()
                if self.last_dir == other(end) and any(d["t"] == "DM" for d in self.last_leaves):
                    return
            self.st.inc("close_without_dm")
        tco = sock._tco
        real = tco.recv_ready
        tco.recv_ready = PumpCond(real, pump)
        try:
            sock.close()
        except Violation:
            raise
        except Exception as e:
            return self._api_error("close", e)
        finally:
            tco.recv_ready = real
        return False

    # -- quiescence -----------------------------------------------------------------------------------------
    def drain(self):
        quiet = 0
        for _ in range(400):
            moved = self.turn()
            moved = self.turn() or moved
            if self.helper and self.cc_delivered:
                self.join_connect()
                moved = True
            for end in "AB":
                if self.usable(end):
                    while not self.op_r(end):
                        moved = True
            quiet = 0 if moved else quiet + 1
            if quiet >= 1 and not self.helper:       # a round without any PDU or recv() leaves the state unchanged
                return
        raise Inconclusive("link not quiescent after 400 rounds without application sends")

    def finish(self, probe=True):
        for end in "AB":
            if self.usable(end):
                self.op_b(end, 0)
        self.drain()
        for rnd in (0, 1):
            if self.any_close:
                self.st.inc("quiescence_prefix_only")
                return
            for x in "AB":
                if self.rcvd[other(x)] != self.sent[x]:
                    raise Violation("deliver/lost-at-quiescence", "%s>%s: %d accepted, %d delivered after draining" % (
                        x, other(x), len(self.sent[x]), len(self.rcvd[other(x)])))
            self.st.inc("quiescence_equal_checked")
            if not probe:
                return
            if rnd == 0:        # everything is acknowledged now: one more message per direction must get through
                for x in "AB":
                    if self.model.rw.get(other(x), 0) >= 1 and self.usable(x):
                        self.op_s(x, 9)
                self.drain()

    def cleanup(self):
        if self.held is not None:
            try:
                self.held.release()
            except Exception:
                pass
            self.held = None
        if self.helper:
            try:
                tco = self.helper and self.sock[self.helper[0]]._tco
                with tco.lock:
                    tco.recv_ready.notify_all()
            except Exception:
                pass


def run_history(cfg, ops, st, prune=False):
    """-> (index of first no-op step or None, Exec); raises Violation / Inconclusive"""
    ex = Exec(cfg, st)
    try:
        cut = None
        for i, op in enumerate(ops):
            try:
                noop = ex.do(op)
            except Violation as v:
                v.step = i
                raise
            if noop and prune:
                cut = i
                break
        ex.finish(probe=not prune)
        return cut, ex
    except Violation as v:
        if ex.ctx and not v.sig.endswith(ex.ctx):
            v.sig += ex.ctx
            v.what += " [an I PDU had reached the connecting end after the CC while its connect() had not returned]"
        raise
    finally:
        ex.cleanup()


def shrink(cfg, ops, sig, budget=250):
    """greedy chunk removal keeping the signature (witness minimisation only; the verdict came from the full history)"""
    ops = list(ops)
    n = max(1, len(ops) // 2)
    while n >= 1 and budget > 0:
        i = 0
        changed = False
        while i < len(ops) and budget > 0:
            cand = ops[:i] + ops[i + n:]
            budget -= 1
            try:
                run_history(cfg, cand, Stats())
                same = False
            except Violation as v:
                same = v.sig == sig
                if same and getattr(v, "step", None) is not None:
                    cand = cand[:v.step + 1]
            except Exception:
                same = False
            if same:
                ops, changed = cand, True
            else:
                i += n
        if n == 1 and not changed:
            break
        n = max(1, n // 2) if n > 1 else (1 if changed else 0)
    return ops


def expand(sym):
    if sym in ("T", "J"):
        return [sym]
    k, e = sym[0], sym[1]
    if k == "s":
        return ["s", e, 8]
    if k == "b":
        return ["b", e, -1]          # toggle (resolved by the enumerator)
    return [k, e]


class Reporter:
    def __init__(self, R):
        self.R, self.shrunk = R, {}

    def violation(self, v, cfg, ops, kind):
        step = getattr(v, "step", None)
        ops = list(ops if step is None else ops[:step + 1])
        n = self.shrunk.get(v.sig, 0)
        if n < 2 and len(ops) > 3:
            self.shrunk[v.sig] = n + 1
            try:
                ops = shrink(cfg, ops, v.sig)
            except Exception:
                pass
        self.R.violation(v.sig, v.what, {"kind": "lockstep", "from": kind, "cfg": cfg, "ops": ops})


def full_cfg(ex):
    return {"rw": ex["rw"], "agf": [ex["agf"], ex["agf"]], "link_miu": [248, 248], "rcv_miu": [None, None],
            "client": "A", "early": ex["early"]}


def enumerate_histories(cfg, alphabet, depth, R, rep, st):
    """odometer over alphabet^depth; a history is cut at its first no-op step (refused send, nothing to receive,
    second empty link turn in a row) and its extensions are skipped: they equal a shorter history. Calls on
    different ends without a link turn in between touch disjoint objects and commute: only the order "A before B"
    is executed (partial-order reduction), so a history stands for its equivalence class."""
    idx = [0] * depth
    n = nontrivial = 0
    while True:
        busy = {"A": 0, "B": 0}
        ops = []
        for i in idx:
            op = expand(alphabet[i])
            if op[0] == "b":
                busy[op[1]] ^= 1
                op = ["b", op[1], busy[op[1]]]
            ops.append(op)
        cut = None
        for j in range(1, depth):
            if ops[j][0] in "srb" and ops[j - 1][0] in "srb" and ops[j][1] == "A" and ops[j - 1][1] == "B":
                cut = j
                break
        if cut is not None:
            st.inc("histories_skipped_commuting")
        else:
            n += 1
        try:
            if cut is not None:
                raise StopIteration
            cut, ex = run_history(cfg, ops, st, prune=True)
            nontrivial += bool(ex.i_seen and ex.compared)
        except Violation as v:
            rep.violation(v, cfg, ops, "exhaustive")
            cut = getattr(v, "step", None)
            nontrivial += 1
            st.inc("histories_with_violation")
        except StopIteration:
            pass
        except Inconclusive as e:
            R.inconc("lock-step history %r: %s" % (ops, e))
        pos = depth - 1 if cut is None else cut
        for j in range(pos + 1, depth):
            idx[j] = 0
        while pos >= 0:
            idx[pos] += 1
            if idx[pos] < len(alphabet):
                break
            idx[pos] = 0
            pos -= 1
        if pos < 0:
            break
    R.bulk(n, nontrivial)
    st.inc("histories_enumerated", n)
    return n


# ---------------------------------------------------------------------------------------------------------------
PROFILES = {  # op weights: turn, send, recv, busy, poll, oversize
    "balanced": (35, 25, 25, 2, 3, 1),
    "send-heavy": (20, 50, 10, 1, 2, 2),
    "link-starved": (6, 45, 40, 2, 4, 1),
    "recv-starved": (40, 40, 3, 2, 3, 1),
    "recv-heavy": (35, 15, 45, 1, 3, 1),
    "busy-flapping": (35, 20, 20, 20, 3, 1),
}


def random_cfg(rng):
    lm = [rng.choice([128, 129, 200, 248, 1000, 2175]) for _ in "AB"]
    rcv = [rng.choice([None, 128, 129, 140, lm[i], rng.randrange(128, lm[i] + 1), 2175]) for i in (0, 1)]
    rwmode = rng.random()
    if rwmode < 0.15:
        rw = [rng.choice([0, 1, 15]) for _ in "AB"]
    elif rwmode < 0.35:
        rw = [15, 15]
    else:
        rw = [rng.randrange(0, 16) for _ in "AB"]
    return {"rw": rw, "agf": [int(rng.random() < 0.6), int(rng.random() < 0.6)], "link_miu": lm, "rcv_miu": rcv,
            "client": rng.choice("AB"), "early": rng.choice([0] * 8 + [1, 2])}


def gen_walk(rng, cfg, steps):
    """operation list of one random walk, generated up-front (the executor is deterministic given cfg + ops)"""
    ops = []
    busy = {"A": 0, "B": 0}
    close_at = rng.randrange(steps) if rng.random() < 0.2 else -1
    join_at = rng.randrange(1, 40) if cfg["early"] == 2 else -1
    miu_guess = {"A": 128, "B": 128}      # upper estimate of the MIU the peer of that end will announce
    for i, e in enumerate("AB"):
        r = cfg["rcv_miu"][i]
        miu_guess[other(e)] = min(cfg["link_miu"][i], 128 if r is None else r)
    prof = None
    side = {"A": 1.0, "B": 1.0}
    while len(ops) < steps:
        if prof is None or rng.random() < 0.01:
            prof = PROFILES[rng.choice(sorted(PROFILES))]
            side = {"A": rng.choice([0.2, 1.0, 1.0, 3.0]), "B": 1.0}
        if len(ops) == close_at:
            ops.append(["c", rng.choice("AB")])
            continue
        if len(ops) == join_at:
            ops.append(["J"])
            continue
        k = rng.choices("Tsrbpo", weights=prof)[0]
        e = "A" if rng.random() < side["A"] / (side["A"] + side["B"]) else "B"
        if k == "T":
            ops.append(["T"])
        elif k == "s":
            m = miu_guess[e]
            n = rng.choice([0, 1, 5, 6, 17, 120, m - 1, m, m, rng.randrange(5, m + 1)])
            ops.append(["s", e, max(0, n)])
        elif k == "o":
            m = miu_guess[e]
            ops.append(["s", e, m + rng.choice([1, 1, 2, 100, 3000])])
        elif k == "r":
            ops.append(["r", e])
        elif k == "b":
            busy[e] ^= 1
            ops.append(["b", e, busy[e]])
        else:
            ops.append(["p", e, rng.choice(["recv", "send", "acks", "acks"])])
    return ops


def run_lockstep(desc, R, rng):
    from vf.core import contracts
    contracts.install_pdu_length_contract()
    c0 = contracts.COUNTS.get("pdu_len_contract", 0)
    inv = install_dlc_invariant() if desc.get("invariants") else None
    st = Stats()
    rep = Reporter(R)
    # (1) bounded-exhaustive histories
    cfg = full_cfg(desc["ex"])
    t0 = time.time()
    enumerate_histories(cfg, desc["alphabet"], desc["depth"], R, rep, st)
    if desc.get("depth2"):
        enumerate_histories(cfg, desc["alphabet2"], desc["depth2"], R, rep, st)
    R.exhaustive = False         # exhaustive only for the bounded histories of this configuration; the walks sample
    st["exhaustive_wall_s"] = round(time.time() - t0, 1)
    R.seen("exhaustive_configs", "rw=%s agf=%d early=%d" % (desc["ex"]["rw"], desc["ex"]["agf"], desc["ex"]["early"]))
    # (2) random walks
    for w in range(desc["walks"]):
        cfg = random_cfg(rng)
        ops = gen_walk(rng, cfg, desc["steps"])
        key = hashlib.blake2b(json.dumps([cfg, ops]).encode(), digest_size=8).hexdigest()
        try:
            _, ex = run_history(cfg, ops, st)
            R.case(key, nontrivial=bool(ex.i_seen and ex.compared))
            st.inc("walks")
            st.inc("walk_steps", len(ops))
            st.inc("walks_early", int(bool(cfg["early"])))
            if w < 1:
                R.sample({"walk_cfg": cfg, "accepted": [len(ex.sent["A"]), len(ex.sent["B"])],
                          "delivered": [len(ex.rcvd["B"]), len(ex.rcvd["A"])], "first_ops": ops[:12]})
        except Violation as v:
            R.case(key)
            st.inc("walks")
            st.inc("walks_with_violation")
            rep.violation(v, cfg, ops, "walk")
        except Inconclusive as e:
            R.inconc("walk %s: %s" % (key, e))
    for k, v in st.items():
        if k.startswith("max_"):
            R.max(k, v)
        else:
            R.count(k, v)
    R.count("pdu_len_contract", contracts.COUNTS.get("pdu_len_contract", 0) - c0)
    if inv is not None:
        R.count("dlc_invariant_evaluations", inv["evals"])
        R.count("dlc_invariant_failures", inv["broken"])
        R.count("dlc_invariant_unavailable", inv["unavailable"])
        if inv.get("first"):
            R.sample({"dlc_invariant_failure": inv["first"]})


def install_dlc_invariant():
    """secondary evidence only (uses nfcpy attribute names, so it never decides): counters stay in 0..15, window
    occupancy inside the announced windows, confirmations <= RW(local). Failures are counted, nothing is raised."""
    import icontract
    import nfc.llcp.tco as tco
    c = {"evals": 0, "broken": 0, "unavailable": 0}

    def dlc_state_consistent(self):
        c["evals"] += 1
        try:
            ok = (0 <= self.send_cnt <= 15 and 0 <= self.send_ack <= 15 and 0 <= self.recv_cnt <= 15
                  and 0 <= self.recv_ack <= 15 and 0 <= self.recv_confs <= max(self.recv_win, 0)
                  and (self.send_win is None or (self.send_cnt - self.send_ack) % 16 <= self.send_win)
                  and (self.recv_cnt - self.recv_ack) % 16 <= self.recv_win)
        except AttributeError:
            c["unavailable"] += 1
            return True
        if not ok:
            c["broken"] += 1
            c.setdefault("first", str(self))
        return True
    try:
        icontract.invariant(dlc_state_consistent)(tco.DataLinkConnection)
    except Exception:
        c["unavailable"] += 1
    return c


# ---------------------------------------------------------------------------------------------------------------
#  thread stress
# ---------------------------------------------------------------------------------------------------------------
class FastTime:
    """stands in for the `time` module inside nfc.llcp.llc: collect(delay) sleeps are capped (the run loops keep
    yielding the processor but an idle link does not cost 50 ms per turn)"""

    def __init__(self, cap):
        self._cap = cap

    def sleep(self, s):
        time.sleep(min(s, self._cap))

    def __getattr__(self, name):
        return getattr(time, name)


class YieldInjector:
    TOOL = 3

    def __init__(self, rng, p_yield, p_sleep):
        self.rng, self.p1, self.p2 = rng, p_yield, p_yield + p_sleep
        self.last = None
        self.sig = 0
        self.switches = 0
        self.lines = 0
        self.sites = set()
        self.active = False

    def on_line(self, code, line):
        fn = code.co_filename
        if not (fn.endswith("nfc/llcp/tco.py") or fn.endswith("nfc/llcp/llc.py")):
            return sys.monitoring.DISABLE
        t = threading.get_ident()
        self.lines += 1
        if t != self.last:
            self.last = t
            name = threading.current_thread().name
            self.switches += 1
            self.sig = hash((self.sig, name, code.co_name))
            if len(self.sites) < 2000:
                self.sites.add("%s:%s" % (name, code.co_name))
        r = self.rng.random()
        if r < self.p1:
            time.sleep(0)
        elif r < self.p2:
            time.sleep(0.0002)

    def start(self):
        mon = sys.monitoring
        mon.use_tool_id(self.TOOL, "vf-c05")
        self.active = True
        mon.register_callback(self.TOOL, mon.events.LINE, self.on_line)
        mon.set_events(self.TOOL, mon.events.LINE)
        mon.restart_events()

    def stop(self):
        if self.active:
            mon = sys.monitoring
            mon.set_events(self.TOOL, 0)
            mon.register_callback(self.TOOL, mon.events.LINE, None)
            mon.free_tool_id(self.TOOL)
            self.active = False


GATE_GUARD = 20.0


class GateCond:
    """Harness-side delegating stand-in for ONE Condition attribute of ONE connection object (send_token: the wait
    for a free send-window slot, recv_ready: the wait for a message).  Everything goes to the real Condition; on top:
      * it counts, per call of the surrounding method (= per `with cond:` entry of a thread), how often the thread
        waits: a second wait inside one call means the thread was woken and found its condition false again
        (another thread was faster) - the situation in which a missing re-check breaks the protocol;
      * hold: a thread that returns from an untimed wait() gives the lock up again at once (exactly the state of a
        notified thread that has not been scheduled yet: Condition.wait() = release, sleep, re-acquire and other
        threads may get the lock before the re-acquisition) and parks until the harness releases it;
      * p_delay: the same, but only for a few yields (random schedule perturbation in the threaded runs).
    Nothing here decides a verdict."""

    def __init__(self, real, rng=None, p_delay=0.0):
        self._real = real
        self._rng, self._p = rng, p_delay
        self.mu = threading.Lock()
        self.calls = {}             # thread ident -> waits in the current call
        self.waiting = set()        # idents inside the real wait()
        self.parked = set()         # idents parked after a wake-up, lock released
        self.hold = False
        self.go = threading.Event()
        self.wakeups = self.rewaits = self.delays = self.guard_hit = self.unavailable = 0

    def __enter__(self):
        r = self._real.__enter__()
        self.calls[threading.get_ident()] = 0
        return r

    def __exit__(self, *a):
        return self._real.__exit__(*a)

    def _give_up_lock(self, pause):
        try:
            saved = self._real._release_save()
        except Exception:
            self.unavailable += 1
            return
        try:
            pause()
        finally:
            self._real._acquire_restore(saved)

    def wait(self, timeout=None):
        me = threading.get_ident()
        with self.mu:
            n = self.calls.get(me, 0)
            self.calls[me] = n + 1
            self.rewaits += n > 0
            self.waiting.add(me)
        try:
            r = self._real.wait(timeout)
        finally:
            with self.mu:
                hold = self.hold and timeout is None
                if hold:
                    self.parked.add(me)         # before it leaves `waiting`: never in neither set
                self.waiting.discard(me)
                self.wakeups += 1
        if timeout is not None:
            return r
        if hold:
            def park():
                if not self.go.wait(GATE_GUARD):
                    self.guard_hit += 1
            try:
                self._give_up_lock(park)
            finally:
                with self.mu:
                    self.parked.discard(me)
        elif self._p and self._rng.random() < self._p:
            self.delays += 1
            k = self._rng.choice((1, 1, 2, 4))
            self._give_up_lock(lambda: [time.sleep(0) for _ in range(k)])
        return r

    def notified(self):
        """threads that are inside the real wait() but no longer registered as waiters: they have been notified and
        will return as soon as they are scheduled (None if CPython's waiter list is not accessible)"""
        try:
            return len(self.waiting) - len(self._real._waiters)
        except Exception:
            return None

    def await_parked(self, n):
        """until n threads are parked; does not wait for wake-ups that were never issued"""
        t0 = time.time()
        while len(self.parked) < n and time.time() - t0 < GATE_GUARD:
            with self.mu:               # a woken thread moves from `waiting` to `parked` under this lock
                k, parked = self.notified(), len(self.parked)
            if k is not None and parked + k < n:
                return False
            time.sleep(0)
        return len(self.parked) >= n

    def __getattr__(self, name):
        return getattr(self._real, name)


def judge_delivery(direction, sends, recvs, complete):
    """Delivery oracle for one direction with any number of sender / receiver threads on the connection.
    sends: {sender thread: [[msg, start stamp, end stamp or None (call not returned / not accepted)], ...]} in call order;
    recvs: {receiver thread: [msg, ...]} in the order that thread's recv() calls returned.
    exactly once: no message twice, nothing that was never handed to send(); in sending order: if send(m1) returned
    before send(m2) was called (always so inside one sender thread) no receiver thread gets m2 before m1, and with
    one receiver thread the messages of a sender thread arrive without gaps; complete (quiescence, nobody closed):
    the delivered and the accepted messages are the same multiset.  Returns (clause, text) or None."""
    info = {}
    for t, recs in sends.items():
        for k, (msg, s0, s1) in enumerate(recs):
            info[msg] = (s0, s1 if s1 is not None else 1 << 62, t, k)
    seen = {}
    for rt, got in recvs.items():
        hi, him = -1, None
        for i, msg in enumerate(got):
            if not isinstance(msg, (bytes, bytearray)):
                return ("recv-returned-%s" % type(msg).__name__, "%s %s recv() #%d returned %r" % (direction, rt, i, msg))
            msg = bytes(msg)
            if msg in seen:
                return ("duplicate", "%s message %r delivered twice (%s #%d and %s #%d)" % (
                    direction, msg[:5], seen[msg][0], seen[msg][1], rt, i))
            seen[msg] = (rt, i)
            if msg not in info:
                return ("never-accepted", "%s %s recv() #%d returned %d bytes no send() was given" % (direction, rt, i, len(msg)))
            s0, s1, t, k = info[msg]
            if s1 < hi:
                return ("lost-or-reordered", "%s %s received message #%d of %s after message #%d of %s although its "
                        "send() had returned before that one was called" % (direction, rt, k, t, info[him][3], info[him][2]))
            if s0 > hi:
                hi, him = s0, msg
    if len(recvs) == 1 or complete:
        for t, recs in sends.items():
            flags = [rec[0] in seen for rec in recs]
            if False in flags and True in flags[flags.index(False):]:
                return ("lost-or-reordered", "%s message #%d of %s was not delivered but a later one of that thread was" % (
                    direction, flags.index(False), t))
    if complete:
        acc = sum(1 for recs in sends.values() for rec in recs if rec[2] is not None)
        lost = [(t, k) for t, recs in sends.items() for k, rec in enumerate(recs) if rec[2] is not None and rec[0] not in seen]
        if lost or len(seen) != acc:
            return ("lost-at-quiescence", "%s: accepted %d, delivered %d, first missing %r" % (direction, acc, len(seen), lost[:1]))
    return None


class WireWatch:
    """pipe observer: online window model + what the stall detector needs (frame numbers of events)"""

    def __init__(self, st):
        self.st = st
        self.model = WindowModel()
        self.frame = 0
        self.i_frame = {"A": [], "B": []}        # frame number of the k-th I PDU of that sender
        self.ack_frame = {"A": 0, "B": 0}        # frame number of the last acknowledgement that advanced for that sender
        self.bad = []
        self.i_data = {"A": [], "B": []}
        self.ann_busy = {"A": False, "B": False}
        self.undecodable = 0
        self.first = {}                          # frame number of the first CONNECT / CC
        self.seq = 0                             # running number of leaf PDUs (order inside aggregated frames)
        self.first_seq = {}
        self.first_i_seq = {}
        self.frame_of = {}                       # I PDU payload -> frame number (payloads carry unique ids)

    def __call__(self, direction, data, _pdu=None):
        x = direction[0]
        self.frame += 1
        try:
            leaves = ref.flatten(ref.decode(data))
        except ref.Reject:
            self.undecodable += 1
            return
        st, m = self.st, self.model
        if len(leaves) > 1:
            st.inc("aggregated_frames")
        for d in leaves:
            t = d["t"]
            st.inc("pdu_" + t)
            if t == "SYMM":
                continue
            self.first.setdefault(t, self.frame)
            self.seq += 1
            self.first_seq.setdefault(t, self.seq)
            if t == "I":
                self.first_i_seq.setdefault(x, self.seq)
            if t == "RNR":
                if not self.ann_busy[x]:
                    st.inc("rnr_episodes")
                self.ann_busy[x] = True
            elif t == "RR":
                self.ann_busy[x] = False
            acked = m.acked[other(x)]
            wraps, full = m.wraps, m.full
            bad = m.feed(x, d)
            st.inc("ns_wraps", m.wraps - wraps)
            st.inc("window_full_events", m.full - full)
            if t == "I":
                self.i_frame[x].append(self.frame)
                self.i_data[x].append(d["data"])
                self.frame_of.setdefault(d["data"], self.frame)
                st.mx("max_outstanding", m.outstanding(x))
            if m.acked[other(x)] != acked:
                self.ack_frame[other(x)] = self.frame
            for clause, detail in bad:
                if clause == "pdu-before-cc":
                    clause += "/" + t
                if len(self.bad) < 20:
                    self.bad.append((clause, "%s>%s %s: %s" % (x, other(x), t, detail)))


def wait_info(th):
    """(qualified name of the innermost nfc/llcp/tco.py function, untimed?, still registered as waiter?) of a
    thread that sits in threading.Condition.wait, else None"""
    f = sys._current_frames().get(th.ident)
    if f is None or f.f_code.co_name != "wait" or not f.f_code.co_filename.endswith("threading.py"):
        return None
    loc = f.f_locals
    if "waiter" not in loc:
        return None
    cond, waiter = loc.get("self"), loc.get("waiter")
    try:
        registered = waiter in cond._waiters
    except Exception:
        registered = None
    g = f.f_back
    while g is not None and not g.f_code.co_filename.endswith("nfc/llcp/tco.py"):
        g = g.f_back
    if g is None:
        return None
    return (getattr(g.f_code, "co_qualname", g.f_code.co_name), loc.get("timeout") is None, registered)


def threaded_run(cfg, R, rng, st, budget=60.0):
    """one run; returns list of (sig, what) violations; raises Inconclusive"""
    import nfc.llcp
    import nfc.llcp.llc as LLC
    from vf.sim.llcpair import ThreadedPair
    L = nfc.llcp
    viol = []
    watch = WireWatch(st)
    inj = YieldInjector(rng, cfg["p_yield"], cfg["p_sleep"])
    lm, agf = cfg["link_miu"], cfg["agf"]
    real_time = LLC.time
    LLC.time = FastTime(cfg.get("sleep_cap", 0.0005))
    pair = ThreadedPair({"miu": lm[0], "agf": bool(agf[0]), "lto": 2500}, {"miu": lm[1], "agf": bool(agf[1]), "lto": 2500})
    pair.pipe.keep_wire = False
    pair.pipe.observers.append(watch)
    state = {}                         # thread name -> (op, index[, message]) of the call in progress, None between calls
    nsend = cfg.get("senders", [1, 1])
    nrecv = cfg.get("receivers", [1, 1])
    sends = {"A": {}, "B": {}}         # end -> sender thread -> [[message, start stamp, end stamp | None], ...]
    rcvd = {"A": {}, "B": {}}          # end -> receiver thread -> [message, ...]
    roles = {"setupS": (None, "setup"), "setupC": (None, "setup")}
    stamp = itertools.count()
    quota = {"A": cfg["n"][1], "B": cfg["n"][0]}       # recv() calls still to be started at that end
    qlock = threading.Lock()
    gates = {}
    none_seen = {"n": 0}
    errors = []
    marks = {}
    late = []
    over = {"checked": 0}
    socks = {}
    c, s = cfg["client"], other(cfg["client"])
    connected = threading.Event()
    stop = threading.Event()
    threads = []

    def guarded(fn):
        def run(*a):
            try:
                fn(*a)
            except BaseException as e:
                errors.append((threading.current_thread().name, e))
        return run

    def setopts(sock, i):
        if cfg["rcv_miu"][i] is not None:
            sock.setsockopt(L.SO_RCVMIU, cfg["rcv_miu"][i])
        sock.setsockopt(L.SO_RCVBUF, cfg["rw"][i])

    def sender(end, idx, count):
        me = threading.current_thread().name
        if not (cfg["greet"] and end == s) and not connected.wait(40):
            late.append(me)
            return
        sock = socks[end]
        miu = sock.getsockopt(L.SO_SNDMIU)
        r = random.Random(cfg["seed"] * 7 + ord(end) + idx * 131)
        recs = sends[end][me]
        for k in range(count):
            if stop.is_set():
                return
            if r.random() < 0.04:
                big = make_msg(end, 1000000 + idx * 100000 + k, miu + r.choice([1, 2, 500]))
                try:
                    ok = sock.send(big)
                    viol.append(("miu/oversize-accepted", "blocking send(%d bytes) returned %r, MIU %d" % (len(big), ok, miu)))
                except L.Error as e:
                    if e.errno != errno.EMSGSIZE:
                        viol.append(("miu/oversize-wrong-error-%s" % errname(e), "send(len>MIU) raised %r" % e))
                    over["checked"] += 1
            if r.random() < 0.05:
                sock.poll("acks", 0)
            n = r.choice([5, 6, 9, 40, miu, miu - 1, r.randrange(5, miu + 1)])
            msg = make_msg(end, idx * 100000 + k, n)
            rec = [msg, next(stamp), None]
            recs.append(rec)
            state[me] = ("send", k, msg)
            ok = sock.send(msg)
            state[me] = None
            if ok is True:
                rec[2] = next(stamp)
            else:
                errors.append((me, RuntimeError("send returned %r" % ok)))
                return

    def receiver(end, idx):
        me = threading.current_thread().name
        if end == c and not connected.wait(40):
            late.append(me)
            return
        sock = socks[end]
        r = random.Random(cfg["seed"] * 11 + ord(end) + idx * 137)
        busy_left = 0
        got = rcvd[end][me]
        while not stop.is_set():
            with qlock:
                if quota[end] <= 0:
                    break
                quota[end] -= 1
            if cfg["busy"] and busy_left == 0 and r.random() < 0.06 and (cfg["greet"] or connected.is_set()):
                sock.setsockopt(L.SO_RCVBSY, True)
                busy_left = r.randrange(1, 6)
            if r.random() < 0.1:
                sock.poll("recv", 0.001)
            state[me] = ("recv", len(got))
            m = sock.recv()
            state[me] = None
            if m is None and nrecv["AB".index(end)] > 1 and none_seen["n"] < 100000:
                # observation, not judged (no message is lost): with several threads in recv() on one socket a woken
                # receiver may find the queue emptied by another one and gets None although nobody closed
                none_seen["n"] += 1
                with qlock:
                    quota[end] += 1
            else:
                got.append(m)
            if busy_left:
                busy_left -= 1
                if busy_left == 0:
                    sock.setsockopt(L.SO_RCVBSY, False)
        if busy_left:
            sock.setsockopt(L.SO_RCVBSY, False)

    def install_gate(end, sock):
        if max(nsend) > 1:
            # coverage of the contended window wait (and a little more schedule variety at exactly that point)
            tco = sock._tco
            gates[end] = tco.send_token = GateCond(tco.send_token, random.Random(cfg["seed"] + ord(end)),
                                                   cfg.get("p_wake_delay", 0.0))

    def server_setup():
        srv = L.Socket(pair.llc_of(s), L.DATA_LINK_CONNECTION)
        setopts(srv, "AB".index(s))
        srv.bind(40)
        srv.listen(1)
        socks["listen"] = srv
        listening.set()
        state["setupS"] = ("accept", 0)
        acc = srv.accept()
        install_gate(s, acc)
        socks[s] = acc
        state["setupS"] = None
        accepted_ev.set()

    def client_setup():
        listening.wait(10)
        cli = L.Socket(pair.llc_of(c), L.DATA_LINK_CONNECTION)
        setopts(cli, "AB".index(c))
        state["setupC"] = ("connect", 0)
        cli.connect(40)
        marks["connect_returned"] = watch.frame
        state["setupC"] = None
        install_gate(c, cli)
        socks[c] = cli
        connected.set()

    pair.llc_of = lambda e: pair.a if e == "A" else pair.b
    listening, accepted_ev = threading.Event(), threading.Event()
    t_start = time.time()
    result = None
    try:
        inj.start()
        if not pair.start(10):
            raise Inconclusive("threaded pair did not come up")
        ts = threading.Thread(target=guarded(server_setup), name="setupS", daemon=True)
        tc = threading.Thread(target=guarded(client_setup), name="setupC", daemon=True)
        ts.start()
        tc.start()
        suspect = {}
        t_acc = time.time()
        while not accepted_ev.wait(0.05):
            stall = detect_stall([ts, tc], state, watch, suspect)
            if stall:
                viol.append(stall)
                break
            if errors or time.time() - t_acc > 30:
                raise Inconclusive("accept() did not return within 30 s (errors: %r)" % errors)
        for i, end in enumerate("AB"):
            if viol:
                break
            for j in range(nsend[i]):
                name = "send%s%s" % (end, j if nsend[i] > 1 else "")
                count = cfg["n"][i] // nsend[i] + (j < cfg["n"][i] % nsend[i])
                sends[end][name], roles[name] = [], (end, "send")
                threads.append(threading.Thread(target=guarded(sender), args=(end, j, count), name=name, daemon=True))
            for j in range(nrecv[i]):
                name = "recv%s%s" % (end, j if nrecv[i] > 1 else "")
                rcvd[end][name], roles[name] = [], (end, "recv")
                threads.append(threading.Thread(target=guarded(receiver), args=(end, j), name=name, daemon=True))
        for t in threads:
            t.start()
        # monitor: structural stall detection, wall-clock only decides "inconclusive"
        suspect = {}
        while any(t.is_alive() for t in threads):
            time.sleep(0.02)
            stall = detect_stall(threads + [tc], state, watch, suspect, roles=roles, rcvd=rcvd)
            if stall:
                viol.append(stall)
                break
            if errors or watch.bad:
                break
            if time.time() - t_start > budget:
                where = {t.name: (state.get(t.name), wait_info(t)) for t in threads if t.is_alive()}
                raise Inconclusive("threaded run watchdog (%ds): %r frame=%d" % (budget, where, watch.frame))
        link_died = not (pair.ta.is_alive() and pair.tb.is_alive())
        if errors and not link_died:
            # a live link keeps exchanging (at least SYMM) frames; if none flow any more the link has ended and the
            # errors of the application threads are its consequence, not evidence about the connection
            f0, t1 = watch.frame, time.time()
            while watch.frame < f0 + 4 and time.time() - t1 < 3.0:
                time.sleep(0.02)
            link_died = watch.frame < f0 + 4
        stop.set()
        if late and not watch.bad:
            raise Inconclusive("connect() did not return within 40 s: %r never started" % late)
        if link_died and (errors or any(t.is_alive() for t in threads)):
            raise Inconclusive("the link ended before the application threads were done (run loop exceptions %r, "
                               "thread errors %r)" % (pair.run_exc, errors[:2]))
        result = "done"
    finally:
        inj.stop()
        pair.term_a = True
        pair.join(5)
        if pair.ta.is_alive() or pair.tb.is_alive():
            pair.pipe.broken = True
            pair.join(3)
        LLC.time = real_time
    st.inc("thread_switches", inj.switches)
    st.inc("monitored_lines", inj.lines)
    for site in inj.sites:
        R.seen("switch_sites", site)
    R.seen("schedule_signatures", "%016x" % (inj.sig & 0xFFFFFFFFFFFFFFFF))
    cfg["schedule_sig"] = "%016x" % (inj.sig & 0xFFFFFFFFFFFFFFFF)
    viol = [("window/" + clause, text) for clause, text in watch.bad] + viol      # earliest symptom first
    for name, e in errors:
        if isinstance(e, L.Error):
            viol.append(("api/threaded-%s/unexpected-%s" % (name[:4], errname(e)), "%s raised %r on an open connection" % (name, e)))
        else:
            viol.append(("escape/threaded-%s/%s" % (name[:4], exc_sig(e)), "%s raised %r" % (name, e)))
    if watch.undecodable:
        viol.append(("wire/undecodable", "%d frames rejected by the reference decoder" % watch.undecodable))
    stalled = any(v[0].startswith("stall/") for v in viol)
    for x in "AB":
        got = sum(len(v) for v in rcvd[other(x)].values())
        st.inc("threaded_messages_delivered", got)
        st.inc("recv_compared", got)
        complete = not stalled and not errors
        bad = judge_delivery("%s>%s" % (x, other(x)), sends[x], rcvd[other(x)], complete)
        if bad:
            viol.append(("deliver/" + bad[0], bad[1]))
        elif complete:
            st.inc("quiescence_equal_checked")
        refused_on_wire = [d for d in watch.i_data[x] if len(d) >= 5 and d[1:5] >= (1000000).to_bytes(4, "big")]
        if refused_on_wire:
            viol.append(("miu/refused-message-transmitted", "%d oversize messages on the wire" % len(refused_on_wire)))
    st.inc("recv_none_on_open_connection", none_seen["n"])
    for g in gates.values():
        st.inc("woken_window_full_again", g.rewaits)
        st.inc("threaded_rewaits", g.rewaits)
        st.inc("window_wait_wakeups", g.wakeups)
        st.inc("wake_delays_injected", g.delays)
        st.inc("gate_unavailable", g.unavailable)
    st.mx("max_sender_threads", max(nsend))
    st.mx("max_receiver_threads", max(nrecv))
    st.inc("emsgsize_checked", over["checked"])
    first_i = watch.i_frame[s][0] if watch.i_frame[s] else None
    if (viol and first_i is not None and "CC" in watch.first_seq and not viol[0][0].startswith("window/pdu-before-cc")
            and watch.first_seq["CC"] < watch.first_i_seq[s] and first_i <= marks.get("connect_returned", 1 << 60)):
        # same structural context as in the lock-step monitor: the accepting end's first I PDU was transmitted after
        # the CC but before the peer's connect() had returned
        viol = [(sig if sig.endswith("-returned") else sig + "/i-after-cc-before-connect-returned", what) for sig, what in viol]
    if result == "done" and not viol:
        st.inc("threaded_runs_completed")
        st.inc("multi_sender_runs_completed", int(max(nsend) > 1))
        st.inc("multi_receiver_runs_completed", int(max(nrecv) > 1))
    return viol


def detect_stall(threads, state, watch, suspect, settle=40, roles=None, rcvd=None):
    """lost wake-up: thread in an untimed wait, still registered as waiter (nobody notified it), while the wire log
    shows - at least `settle` frames ago - that what it waits for has happened. Checked twice in a row.
    With several sender (receiver) threads on one socket a free window slot (a queued message) may be meant for
    another thread that is about to take it: then only the situation in which EVERY live sender (receiver) thread
    of that end is a registered waiter and the wire shows nothing outstanding (more messages than all of them
    received) counts - nothing but a notification could end it."""
    m = watch.model
    roles = roles or {}
    infos = {}

    def info_of(t):
        if t.name not in infos:
            infos[t.name] = wait_info(t) if t.is_alive() and state.get(t.name) is not None else None
        return infos[t.name]

    def team(end, kind):
        return [t for t in threads if roles.get(t.name) == (end, kind)]

    def all_wait(members, suffix):
        for t in members:
            if not t.is_alive():
                continue
            i = info_of(t)
            if i is None or not i[1] or i[2] is not True or not i[0].endswith(suffix):
                return False
        return True

    for t in threads:
        cur = state.get(t.name)
        if cur is None or not t.is_alive():
            suspect.pop(t.name, None)
            continue
        info = info_of(t)
        if info is None or not info[1] or info[2] is not True:
            suspect.pop(t.name, None)
            continue
        qual = info[0]
        end = roles.get(t.name, (t.name[-1],))[0]
        op, k = cur[0], cur[1]
        happened = None
        if op == "send" and qual.endswith("TransmissionControlObject.send"):
            # waits for its I PDU to be taken from the send queue; it is on the wire already
            if len(cur) > 2:
                happened = watch.frame_of.get(cur[2])
            elif len(watch.i_frame[end]) > k:
                happened = watch.i_frame[end][k]
        elif op == "send" and qual.endswith("DataLinkConnection.send"):
            # waits for the send window to open; the wire shows acknowledgements that opened it
            mates = team(end, "send")
            if len(mates) <= 1:
                is_open = m.established and m.sent[end] == k and m.outstanding(end) < m.rw.get(other(end), 0)
            else:
                is_open = (m.established and m.rw.get(other(end), 0) > 0 and m.outstanding(end) == 0
                           and all_wait(mates, "DataLinkConnection.send"))
            if is_open:
                happened = max(watch.ack_frame[end], watch.i_frame[end][-1] if watch.i_frame[end] else 0)
        elif op == "accept" and qual.endswith("TransmissionControlObject.recv"):
            happened = watch.first.get("CONNECT")
        elif op == "connect" and qual.endswith("TransmissionControlObject.recv"):
            happened = watch.first.get("CC")
        elif op == "recv" and qual.endswith("TransmissionControlObject.recv"):
            mates = team(end, "recv")
            if len(mates) > 1:
                k = sum(len(v) for v in rcvd[end].values()) if all_wait(mates, "TransmissionControlObject.recv") else 1 << 60
            if m.established and len(watch.i_frame[other(end)]) > k:
                happened = watch.i_frame[other(end)][k]
        if happened is None or watch.frame - happened < settle:
            suspect.pop(t.name, None)
            continue
        key = (cur[:2], qual, happened)
        if suspect.get(t.name) == key:
            return ("stall/blocked-after-event/%s/%s" % (op, ".".join(qual.split(".")[-2:])),
                    "%s sits in an untimed wait inside %s as a registered waiter (not notified, or woken and waiting "
                    "again) although the wire shows the awaited event at frame %d (now frame %d): %s #%d" % (
                        t.name, qual, happened, watch.frame, op, k))
        suspect[t.name] = key
    return None


# ---------------------------------------------------------------------------------------------------------------
#  forced schedules: several application threads on one socket, the contended wake-up window made deterministic
# ---------------------------------------------------------------------------------------------------------------
def random_gated_cfg(rng):
    rw = rng.choice([1, 1, 2, 3])
    freed = rng.randrange(1, rw + 1)
    kind = "recv" if rng.random() < 0.2 else "send"
    return {"kind": kind, "rw": rw, "rw_back": rng.choice([1, 2, 15]), "end": rng.choice("AB"), "client": rng.choice("AB"),
            "agf": [int(rng.random() < 0.5), int(rng.random() < 0.5)],
            "pre": rng.choice([0, 0, 1, 2, 5, 13, 14, 15, 16, 17, 31]),    # messages delivered before (moves N(S), wrap)
            "waiters": rng.randrange(1, 4),          # threads parked in the blocking call
            "per_waiter": rng.choice([1, 1, 2]),     # messages each of them sends
            "freed": freed,                          # window slots the acknowledgement(s) free
            "ack_pdus": rng.randrange(1, freed + 1),  # ... carried by that many separate RR PDUs (one wake-up each)
            "thieves": rng.choice([freed, freed, max(0, freed - 1)]),   # fresh send() calls that get in first
            "thief_mode": rng.choice(["thread", "thread", "dontwait"]),
            "tx_first": int(rng.random() < 0.5),     # the late comers' I PDUs are transmitted before the woken thread runs
            "lazy_recv": int(rng.random() < 0.6),    # afterwards the receiver calls recv() only when the link went quiet
            "msgs": rng.randrange(1, 4)}             # (recv) messages that arrive while the receivers are parked


class Gated:
    """One deterministic scenario on a lock-step pair (the harness turns the link; application threads block for real).
    send: the window the peer announced (RW 1..3) is full, `waiters` threads sit in blocking send() calls; the
    acknowledgement arrives and wakes one of them per RR; the woken threads are kept from re-acquiring the connection's
    lock (GateCond) while `thieves` further send() calls run and legitimately take the free slots; then the woken
    threads go on.  recv: the same for two threads in recv() and a message that a third recv() call takes first."""

    def __init__(self, cfg, st):
        from vf.sim.llcpair import LockstepPair, lockstep_connect
        import nfc.llcp
        self.L, self.cfg, self.st = nfc.llcp, cfg, st
        agf = cfg["agf"]
        self.lp = LockstepPair({"miu": 248, "agf": bool(agf[0])}, {"miu": 248, "agf": bool(agf[1])})
        self.lp.keep_wire = False
        if not (self.lp.ok_a and self.lp.ok_b):
            raise Inconclusive("LLC activation failed")
        self.watch = WireWatch(st)
        self.lp.observers.append(self.watch)
        x = self.x = cfg["end"]
        rws = {x: cfg["rw_back"], other(x): cfg["rw"]}
        c = cfg["client"]
        try:
            cli, acc, srv = lockstep_connect(self.lp, c, 40, {"rw": rws[c]}, {"rw": rws[other(c)]})
        except RuntimeError as e:
            raise Inconclusive("connection set-up: %s" % e)
        self.S, self.R = (cli, acc) if c == x else (acc, cli)
        self.viol = []
        self.threads = {}
        self.errors = []
        self.stamp = itertools.count()
        self.sends, self.rcvd = {}, {"main": []}
        self.ctr = 0
        self.moved = 0
        self.stop = False

    # -- workers ------------------------------------------------------------------------------------------
    def msg(self):
        self.ctr += 1
        return make_msg(self.x, self.ctr, 9)

    def spawn_sender(self, name, msgs, flags=0):
        recs = self.sends.setdefault(name, [])

        def run():
            try:
                for m in msgs:
                    rec = [m, next(self.stamp), None]
                    recs.append(rec)
                    ok = self.S.send(m, flags)
                    if ok is not True:
                        self.errors.append((name, RuntimeError("send returned %r" % ok)))
                        return
                    rec[2] = next(self.stamp)
            except BaseException as e:
                self.errors.append((name, e))
        t = self.threads[name] = threading.Thread(target=run, name=name, daemon=True)
        t.start()
        return t

    def spawn_receiver(self, name, count, nones):
        got = self.rcvd.setdefault(name, [])

        def run():
            try:
                while len(got) < count and not self.stop:
                    m = self.R.recv()
                    if m is None:
                        nones.append(name)
                        if len(nones) > 50:
                            return
                    else:
                        got.append(m)
            except BaseException as e:
                self.errors.append((name, e))
        t = self.threads[name] = threading.Thread(target=run, name=name, daemon=True)
        t.start()
        return t

    def settle(self, gate=None):
        """until every live worker sits in a Condition wait (or is parked by the gate)"""
        t0 = time.time()
        for t in self.threads.values():
            while t.is_alive():
                if gate is not None and (t.ident in gate.parked):
                    break
                info = wait_info(t)
                if info is not None and info[2] is True:       # registered waiter: not notified (a notified thread
                    break                                      # is still inside wait() but about to run)
                if time.time() - t0 > GATE_GUARD:
                    raise Inconclusive("gated scenario: %s neither blocked nor finished" % t.name)
                time.sleep(0)

    def pump(self):
        for e in "AB":
            f = self.watch.frame
            try:
                self.lp.turn(e)
            except Exception as ex:
                self.viol.append(("escape/turn/%s" % exc_sig(ex), "link turn of %s raised %r" % (e, ex)))
                raise StopIteration
            self.moved += self.watch.frame - f
            if self.watch.bad:
                raise StopIteration

    def recv_main(self, n):
        k = 0
        while k < n and self.R.poll("recv", 0):
            self.rcvd["main"].append(self.R.recv())
            k += 1
        self.moved += k
        return k

    def live(self):
        return [t for t in self.threads.values() if t.is_alive()]

    # -- scenarios ----------------------------------------------------------------------------------------
    def run(self):
        try:
            if self.cfg["kind"] == "recv":
                self.run_recv()
            else:
                self.run_send()
        except StopIteration:
            pass
        finally:
            for g in self.gates:
                g.hold = False
                g.go.set()
        return self.verdicts()

    gates = ()

    def run_send(self):
        cfg, st, m, x = self.cfg, self.st, self.watch.model, self.x
        rw = cfg["rw"]
        tco = self.S._tco
        gate = tco.send_token = GateCond(tco.send_token)
        self.gates = [gate]
        # 1. earlier traffic, then the window is filled and stays unacknowledged (the receiver does not call recv())
        self.spawn_sender("fill", [self.msg() for _ in range(cfg["pre"] + rw)])
        for _ in range(4 * (cfg["pre"] + rw) + 8):
            self.settle()
            if not self.threads["fill"].is_alive():
                break
            self.pump()
            self.recv_main(cfg["pre"] - len(self.rcvd["main"]))
        self.pump()
        if self.threads["fill"].is_alive() or m.outstanding(x) != rw:
            st.inc("gated_window_not_filled")
            return self.drain()
        # 2. blocking senders queue up on the full window
        for i in range(cfg["waiters"]):
            self.spawn_sender("wait%d" % i, [self.msg() for _ in range(cfg["per_waiter"])])
            self.settle()                # one after the other: the order in which they wait is part of the case
        if len(gate.waiting) != cfg["waiters"]:
            st.inc("gated_waiters_not_parked")
            return self.drain()
        # 3. acknowledgements free `freed` slots; every RR wakes one waiter, which is held before it re-acquires the lock
        gate.hold = True
        per = [cfg["freed"] // cfg["ack_pdus"] + (i < cfg["freed"] % cfg["ack_pdus"]) for i in range(cfg["ack_pdus"])]
        for n in per:
            self.recv_main(n)
            acked = m.acked[x]
            for _ in range(3):
                self.pump()
                if m.acked[x] >= acked + n:
                    break
        woken = min(cfg["ack_pdus"], cfg["waiters"])
        if not gate.await_parked(woken) or m.outstanding(x) != rw - cfg["freed"]:
            st.inc("gated_wakeup_not_held")
            gate.hold = False
            gate.go.set()
            return self.drain()
        # 4. other send() calls get in first
        taken = 0
        for i in range(cfg["thieves"]):
            if cfg["thief_mode"] == "dontwait":
                msg = self.msg()
                rec = [msg, next(self.stamp), None]
                self.sends.setdefault("late%d" % i, []).append(rec)
                try:
                    ok = self.S.send(msg, self.L.MSG_DONTWAIT)
                except Exception as e:
                    self.errors.append(("late%d" % i, e))
                    break
                if ok is True:
                    rec[2] = next(self.stamp)
                    taken += 1
            else:
                t = self.spawn_sender("late%d" % i, [self.msg()])
                self.settle(gate)
                i_ = wait_info(t) if t.is_alive() else None
                taken += int(not t.is_alive() or (i_ is not None and i_[0].endswith("TransmissionControlObject.send")))
        if cfg["tx_first"]:
            self.pump()
            self.settle(gate)
        if taken:
            st.inc("gate_window_forced")
        st.inc("gate_window_forced_critical", int(taken and cfg["freed"] - taken < woken))
        rewaits = gate.rewaits
        # 5. the woken threads run
        gate.hold = False
        gate.go.set()
        t0 = time.time()
        while gate.parked and time.time() - t0 < GATE_GUARD:
            time.sleep(0)
        self.settle()
        st.inc("woken_window_full_again", gate.rewaits - rewaits)
        st.inc("gated_rewaits", gate.rewaits - rewaits)
        self.drain()

    def run_recv(self):
        cfg, st, x = self.cfg, self.st, self.x
        tco = self.R._tco
        gate = tco.recv_ready = GateCond(tco.recv_ready)
        self.gates = [gate]
        total = cfg["pre"] % 4 + cfg["msgs"] + 2
        nones = self.nones = []
        # two threads wait in recv(); a message arrives and wakes one, which is held; a third recv() call takes it
        self.spawn_receiver("rcv0", 1 << 30, nones)
        self.settle()
        self.spawn_receiver("rcv1", 1 << 30, nones)
        self.settle()
        if len(gate.waiting) != 2:
            st.inc("gated_waiters_not_parked")
            return
        gate.hold = True
        n = min(cfg["msgs"], cfg["rw"])
        self.spawn_sender("snd", [self.msg() for _ in range(total)])
        for _ in range(3 * n + 3):
            self.settle(gate)
            self.pump()
            if len(self.watch.i_frame[x]) >= n:
                break
        self.pump()
        if not gate.await_parked(min(n, 2)):
            st.inc("gated_wakeup_not_held")
        else:
            took = self.recv_main(n)
            st.inc("gate_recv_window_forced", int(took > 0))
        gate.hold = False
        gate.go.set()
        # quiescence: everything the sender was given arrives at one of the three receivers
        idle = 0
        for _ in range(6 * total + 20):
            self.settle()
            self.moved = 0
            self.pump()
            got = sum(len(v) for v in self.rcvd.values())
            if got >= total and not self.threads["snd"].is_alive():
                break
            idle = 0 if self.moved else idle + 1
            if idle >= 4:
                break
        # let the receiver threads end: each further message is taken by one of them, which then sees the flag
        self.stop = True
        for i in range(8):
            if self.threads["snd"].is_alive() or not [t for t in self.live() if t.name.startswith("rcv")] or self.errors:
                break
            msg = self.msg()
            rec = [msg, next(self.stamp), None]
            try:
                if self.S.send(msg, self.L.MSG_DONTWAIT) is True:
                    rec[2] = next(self.stamp)
                    self.sends.setdefault("fin", []).append(rec)
            except self.L.Error:
                pass
            for _ in range(3):
                self.settle()
                self.pump()
        st.inc("recv_none_on_open_connection", len(nones))

    def drain(self):
        """the receiver takes everything, the link turns until all senders returned; a round without any PDU and any
        recv() leaves the state unchanged (single driving thread, workers all blocked)"""
        idle = 0
        lazy = self.cfg.get("lazy_recv")
        for _ in range(400):
            self.settle()
            self.moved = 0
            self.pump()
            if not (lazy and self.moved):
                self.recv_main(1 << 30)
            if not self.live():
                if self.moved == 0:
                    return
                continue
            idle = 0 if self.moved else idle + 1
            if idle >= 3:
                break
        m, x = self.watch.model, self.x
        for t in self.live():
            info = wait_info(t)
            if info and info[1] and info[2] is True:
                self.viol.append(("stall/blocked-at-quiescence/send/%s" % ".".join(info[0].split(".")[-2:]),
                                  "%s sits in an untimed wait inside %s as a registered waiter although the link is "
                                  "quiescent, the receiver has taken every message and the wire shows %d of RW=%d I PDUs "
                                  "outstanding" % (t.name, info[0], m.outstanding(x), m.rw.get(other(x), -1))))
                return
        if self.live():
            raise Inconclusive("gated scenario: senders neither returned nor provably stalled")

    def verdicts(self):
        L, x = self.L, self.x
        viol = [("window/" + clause, text) for clause, text in self.watch.bad] + self.viol
        for name, e in self.errors:
            if isinstance(e, L.Error):
                viol.append(("api/gated-%s/unexpected-%s" % (name[:4], errname(e)), "%s raised %r on an open connection" % (name, e)))
            else:
                viol.append(("escape/gated-%s/%s" % (name[:4], exc_sig(e)), "%s raised %r" % (name, e)))
        if self.watch.undecodable:
            viol.append(("wire/undecodable", "%d frames rejected by the reference decoder" % self.watch.undecodable))
        complete = not viol and not [t for t in self.live() if t.name.startswith(("fill", "wait", "late", "snd"))]
        got = sum(len(v) for v in self.rcvd.values())
        self.st.inc("recv_compared", got)
        self.st.inc("gated_messages_delivered", got)
        bad = judge_delivery("%s>%s" % (x, other(x)), self.sends, self.rcvd, complete)
        if bad:
            viol.append(("deliver/" + bad[0], bad[1]))
        elif complete:
            self.st.inc("quiescence_equal_checked")
            self.st.inc("gated_scenarios_completed")
        return viol


def gated_run(cfg, st):
    g = Gated(cfg, st)
    st.inc("gated_scenarios")
    st.inc("gated_scenarios_" + cfg["kind"])
    return g.run()


def random_thread_cfg(rng, desc, greet, multi=False):
    lm = [rng.choice([128, 248, 1000, 2175]) for _ in "AB"]
    n_lo, n_hi = desc["n_lo"], desc["n_hi"]
    if multi:
        # several application threads share the socket of an end: 2-4 blocking senders queue up on a small window the
        # peer announced (RW 1..3), 1-2 blocking receivers
        ns = [rng.choice([2, 3, 4]), rng.choice([1, 2, 3])]
        rng.shuffle(ns)
        cfg = random_thread_cfg(rng, desc, greet)
        cfg.update(senders=ns, receivers=[rng.choice([1, 1, 2]) for _ in "AB"],
                   p_wake_delay=rng.choice([0.0, 0.3, 0.6]))
        for i in (0, 1):
            if ns[1 - i] > 1:
                cfg["rw"][i] = rng.choice([1, 1, 2, 3])
        return cfg
    return {"rw": [rng.choice([1, 1, 2, 3, 7, 15, rng.randrange(1, 16)]) for _ in "AB"],
            "agf": [int(rng.random() < 0.6), int(rng.random() < 0.6)], "link_miu": lm,
            "rcv_miu": [rng.choice([None, 128, 200, lm[i]]) for i in (0, 1)],
            "client": rng.choice("AB"), "greet": int(greet), "busy": int(rng.random() < 0.7),
            "n": [rng.randrange(n_lo, n_hi + 1), rng.randrange(n_lo, n_hi + 1)],
            "p_yield": rng.choice([0.005, 0.02, 0.05]), "p_sleep": rng.choice([0.0, 0.001, 0.003]),
            "seed": rng.randrange(1 << 30)}


def run_threaded(desc, R, rng):
    from vf.core import contracts
    contracts.install_pdu_length_contract()
    c0 = contracts.COUNTS.get("pdu_len_contract", 0)
    st = Stats()
    for i in range(desc.get("gated", 0)):
        cfg = random_gated_cfg(rng)
        key = ("gated", json.dumps(cfg, sort_keys=True))
        try:
            viol = gated_run(cfg, st)
        except Inconclusive as e:
            R.inconc(str(e))
            R.case(key, nontrivial=False)
            continue
        R.case(key)
        if i == 0:
            R.sample({"gated_cfg": cfg})
        for sig, what in viol[:1]:
            R.violation(sig, what, {"kind": "gated", "cfg": cfg})
    t0 = time.time()
    for i in range(desc["runs"]):
        if time.time() - t0 > desc["budget"]:
            st.inc("threaded_runs_skipped_budget")      # coverage only, never a verdict
            continue
        cfg = random_thread_cfg(rng, desc, greet=(i % 6 == desc.get("greet_run", -1)), multi=(i % 6 in desc.get("multi_runs", ())))
        st.inc("threaded_runs")
        st.inc("multi_sender_runs", int("senders" in cfg))
        try:
            viol = threaded_run(cfg, R, rng, st)
        except Inconclusive as e:
            R.inconc(str(e))
            R.case(("thr", json.dumps(cfg, sort_keys=True)), nontrivial=False)
            continue
        R.case(("thr", json.dumps(cfg, sort_keys=True)))
        if i == 0:
            R.sample({"threaded_cfg": cfg})
        for sig, what in viol[:1]:              # first violation of a run; the rest are consequences
            R.violation(sig, what, {"kind": "threaded", "cfg": cfg})
    for k, v in st.items():
        if k.startswith("max_"):
            R.max(k, v)
        else:
            R.count(k, v)
    R.count("pdu_len_contract", contracts.COUNTS.get("pdu_len_contract", 0) - c0)


# ---------------------------------------------------------------------------------------------------------------
def run(desc, R, rng):
    if desc["kind"] == "lockstep":
        run_lockstep(desc, R, rng)
    else:
        run_threaded(desc, R, rng)


def replay(case, R):
    if case.get("kind") == "lockstep":
        st = Stats()
        try:
            run_history(case["cfg"], case["ops"], st)
            R.case("replay")
        except Violation as v:
            R.case("replay")
            R.violation(v.sig, v.what, case)
        except Inconclusive as e:
            R.inconc(str(e))
        for k, v in st.items():
            R.count(k, v)
        return
    cfg = dict(case["cfg"])
    if case.get("kind") == "gated":
        st = Stats()
        try:
            viol = gated_run(cfg, st)
        except Inconclusive as e:
            R.inconc(str(e))
            return
        R.case("replay")
        for k, v in st.items():
            R.count(k, v)
        if viol:
            R.violation(viol[0][0], viol[0][1], case)
        return
    for attempt in range(5):            # thread schedules are not reproducible: a few attempts with the same set-up
        st = Stats()
        try:
            viol = threaded_run(dict(cfg), R, random.Random(cfg.get("seed", 0) + attempt), st)
        except Inconclusive as e:
            R.inconc(str(e))
            return
        R.case(("replay", attempt))
        for k, v in st.items():
            R.count(k, v)
        if viol:
            R.violation(viol[0][0], viol[0][1], case)
            return
