"""C20 - tag authentication and MAC-protected reads cannot be fooled.

Everything runs the real nfcpy tag classes (FelicaLite, FelicaLiteS, NTAG21x family, Ultralight EV1, Ultralight C)
under a real ContactlessFrontend against the tag models of vf/sim (t3t: CK/RC/MAC/MAC_A/WCNT/STATE computed with
vf.ref.felica_mac, t2t: PWD_AUTH/PACK and the Ultralight C 3DES handshake).  A man-in-the-middle stage (`Mitm`, in
this file) sits between the frontend and the model and changes responses on the simulated air.

Experiments (field "exp" of a case)
  auth         authenticate(p) against a model holding key k: True <=> k is the key the documentation derives from p
  auth-tamper  same with one response of the authentication exchange modified (single bit / random bytes / replay
               of the answer of an earlier session, also against a tag holding another key); Lite-S additionally with
               a WCNT bit flipped *and* the resulting error status of the STATE write forged into success
  read-mac     FeliCa Lite/Lite-S: read_with_mac(*blocks) after authenticate, untampered and with the Read response
               modified (every single bit; random bytes; block swap; response of an earlier session)
  ndef-read    NDEF read (tag.ndef) on an authenticated Lite/Lite-S tag with any response of the read modified
  write-mac    Lite-S write_with_mac: success reported <=> the model (which verifies MAC_A and WCNT itself) applied it
  protect      protect(p) on a factory tag, fresh activation, authenticate(p) / authenticate(q); the same on tags that
               hold another key (personalised, never locked: the empty password in all accepted forms must bring the
               factory key back, the previous key must stop working) and on FeliCa tags with locked system blocks
               (protect may refuse there; a reported success is judged the same way)

  order        several steps on ONE tag object: sequences over {tag.ndef (octets, length, records), authenticate with
               the right / a wrong password, tag.ndef.octets = ..., read_with_mac, has_changed}, each step with or
               without a man in the middle that applies one standing modification (bit of a message block, block
               replaced, message length in the attribute block changed with the checksum repaired) to every response
               it can - in particular "read before authentication (falsified, nothing protects that read),
               authenticate, read again".  While the last authenticate() returned True every NDEF result handed to
               the application is the message the tag model holds or a failure, whether it comes from a new read or
               from an object cached earlier; cached genuine data without a new read is accepted (the number of MAC
               protected reads after authentication is an observation).  Every authenticate() and read_with_mac()
               result inside the session is judged as in the single-step experiments.  NTAG21x / Ultralight EV1 /
               Ultralight C have no message authentication for reads (outside the second sentence of the property):
               the same sequences are run there and what the cache does is recorded, not judged.
               Lite-S sessions additionally contain write_with_mac / write_without_mac steps, steps made through a
               SECOND tag object for the same activated tag, and writes with MAC whose answer is lost (the tag executed
               them): several writes with MAC of one tag object - the STATE write of every authenticate() is one -
               with the tag's write counter WCNT moving in between where that object does not see it.  WCNT takes
               part in MAC_A, so authenticate(right password) returns True only if the value used is the tag's
               current one.  Which Write commands advance WCNT (with MAC only / every write to non-volatile memory /
               RC writes too) is a parameter of the tag model ("wcnt_counts"); all experiments run under all three.
  protect      ... also continues on the SAME tag object: authenticate(p) True, authenticate(q) not True,
               authenticate(p) True again (FeliCa; Type 2: the first one only, a NAK ends the activation).

  hist         read_with_mac() several times through ONE tag object, with authentications (right / wrong password /
               right password but a response modified) and plain writes in between: the k-th read of a selection is
               modified (data only with the MAC bytes as sent / MAC only / both), or the response the tag sent in an
               earlier step is delivered instead - whole, or only its data / only its MAC grafted into the genuine one;
               recordings of the same session (outside the quantifier, observed) and of an earlier session (judged:
               nothing may be returned - also when the authenticate() in between did NOT return True: then no
               session key exists)
  transcript   every response of authenticate() + read_with_mac() replaced by the recording of an earlier genuine
               session, against a tag with another key and against the genuine tag (fresh challenge)
  fresh        n authenticate() calls on one object and n after a new activation: the random challenges on the wire
               (RC; RndA of Ultralight C, decrypted with the tag's key) are pairwise different; in addition os.urandom
               of nfc.tag.tt3_sony and nfc.tag.tt2_nxp is wrapped for the whole shard to RECORD (not change) every
               challenge drawn: no value twice within a shard
  directed     (exp auth / auth-tamper / read-mac / protect with chosen inputs) keys with 00 / FF / white space at the
               edges of the key halves, K1 = K2, all-00/01/FE/FF, PACK 0000 and PACK that looks like NAK / ACK,
               passwords of 17..32 bytes (24 = length of a three-key 3DES key), non-ASCII str passwords, and - with a
               forced challenge and tag data solved for it (felica_mac.solve_last_half) - MACs that begin / end in
               00, FF, white space or are all zero, for the ID read that decides authenticate() and for read_with_mac;
               RndA / RndB of the Ultralight C handshake with the same patterns
  protect      ... with read_protect=True (Lite: documented refusal; Lite-S MC read restriction, NTAG21x / EV1 PROT
               bit, Ultralight C AUTH1) and on Type 2 tags whose AUTH0 / PROT are set already (with and without
               authenticating with the held key first)
  read-mac     ... block selections at the edges: none, four (more than one command carries), the same block
               several times, system blocks, MAC / MAC_A / CK / unknown numbers in the list (the tag model refuses
               some of them: then nothing may be returned)

Counterfeit tags / block count (mode "reblock"): every Read response of the FeliCa authentication exchange, of
read_with_mac and of the NDEF read is also delivered as a *well-formed* response (LEN octet right, status 0000) that
carries another sequence of blocks than requested: none, every proper prefix and suffix, blocks appended / inserted /
duplicated, with the count octet adjusted or left as the tag sent it - what a tag without the key or a man in the
middle that cuts or pads a response produces.  A tag that holds another key must never authenticate; data returned
by read_with_mac / tag.ndef must be what the model holds for the requested blocks.  When blocks are only appended
behind the genuine ones nothing the tag sent is changed: accepting that is observed, not judged.
Mode "resize": PWD_AUTH / Ultralight C AUTHENTICATE responses cut short or made longer (judged only against tags that
hold another key; a NAK is never made longer for the plain text PWD/PACK scheme).
write-mac additionally runs several writes with MAC in one session (WCNT moves between them, low byte carries).

Key derivation (written from the docstrings of authenticate()/protect(), see `derive`):
  FeliCa Lite/Lite-S  empty -> 16 zero bytes, 1..15 bytes -> ValueError, else the first 16 bytes (CK1 || CK2)
  NTAG21x / UL EV1    empty -> PWD FFFFFFFF PACK 0000, 1..5 bytes -> ValueError, else PWD = p[0:4], PACK = p[4:6]
  Ultralight C        empty -> 49454D4B41455242214E4143554F5946, 1..15 -> ValueError, else the first 16 bytes
DES ignores the least significant bit of every key byte, so for the 3DES based tags "holds the key" is decided
modulo those parity bits.
"""
import contextlib
import os
import random

from vf.core.rec import exc_sig
from vf.ref import felica_mac
from vf.sim import t2t as t2sim
from vf.sim import tagdevice
from vf.sim.t3t import T3TModel

ID = "C20"
LEVEL = "fault_enumeration"
RULE = ("cases = (tag kind {FeliCa Lite, Lite-S, Lite-S/Link, NTAG210/212/213/215/216, UL EV1 11/21, Ultralight C} x "
        "password (length 0,1,15,16,17,32,64 resp. 0,1,5,6,7,16,32,64; bytes/bytearray/str) x relation of the key "
        "held by the tag model to the key derived from the password {same, same-prefix, parity-equivalent, one bit, "
        "random, factory, padded}) for authenticate; x every single bit of every response of the authentication "
        "exchange (striped over the shards), random byte substitutions, replays of an earlier session and (Lite-S) "
        "WCNT flip + forged write status for auth-tamper; (key, 1-3 "
        "block numbers) x every single bit of the Read response + random modifications + earlier-session replay "
        "for read_with_mac; NDEF read and write_with_mac likewise; protect(p) -> authenticate(p)/authenticate(q) "
        "pairs on factory tags, on tags holding another key (empty password as bytes/bytearray/str and a new key) "
        "and on locked FeliCa tags; every Read response of those exchanges as a well-formed response with another "
        "number of blocks {0, each proper prefix/suffix, appended, inserted, duplicated} x count octet {adjusted, "
        "kept} against key-holding and other-key tags; PWD_AUTH/AUTHENTICATE responses of other lengths; 1-4 writes "
        "with MAC per session; sessions of 3-7 steps over {ndef read, authenticate right/wrong, ndef write, "
        "read_with_mac, has_changed} x man in the middle on/off per step x standing modification {message bit, block "
        "substituted, attribute length rewritten} on one tag object (13 fixed sequences + random ones), reads before "
        "authentication included; Lite-S sessions of 2-9 steps over {authenticate, write_with_mac, write_without_mac, "
        "ndef read/write, read_with_mac} x {this tag object, a second tag object of the same activation} x {answer to "
        "the write with MAC / STATE write lost} x WCNT counting rule of the model {mac, nv, all} (10 fixed sequences + "
        "random ones); protect(p) then authenticate(p), authenticate(q), authenticate(p) on the same tag object; "
        "6 fixed + random histories of 5-12 steps over {authenticate right/wrong/tampered, read_with_mac of selection "
        "S/T genuine | data bit | data bytes | MAC bit | both | recorded response of step k whole/data/MAC, plain "
        "write}; whole-transcript replays x {other key, same key}; 2 x n authenticate() for challenge freshness + "
        "every os.urandom draw of the shard; 17 edge keys x {held, one bit off in the edge byte}, 9 PWD/PACK edges, "
        "password lengths {17,23,24,25,31,32}/{7,8,12,16}, 9 MAC patterns x {authenticate, read_with_mac} with forced "
        "challenge, 6 RndA/RndB patterns; protect(read_protect=True) x prior {factory, issuer} x 5 families, 9 "
        "locked Type 2 configurations; 17-21 edge block selections. "
        "A case is distinct by (experiment, tag model, password, modification) and non-trivial when the "
        "deciding call was reached (tag activated, set-up authentication succeeded, modification applied).")
ASSUMPTIONS = [
    "vf.sim.t3t / vf.ref.felica_mac (session key, MAC, MAC_A, WCNT rules from the FeliCa Lite/Lite-S manuals) and "
    "vf.sim.t2t (PWD_AUTH/PACK, Ultralight C handshake) are faithful tag models; their vectors agree with the "
    "repository's own test transcripts",
    "key(p) as written in the authenticate()/protect() docstrings; the CK block holds each 8-byte half reversed",
    "DES parity bits: keys that differ only in bit 0 of a byte are the same key",
    "str passwords: only wrong *results* are violations (every tag class but FelicaLiteS.protect rejects str with "
    "TypeError; the repository's tests pin bytes for FeliCa Lite and str for Lite-S protect); a password that "
    "protect() accepted must authenticate",
    "header bytes, status flag 2, the block count and the 8 unused bytes of the MAC block are not covered by the "
    "MAC: accepting a modification there is not a violation (recorded in the accept/reject matrix)",
    "session experiments: the application-visible NDEF result (tag.ndef None, octets, length, records) after a "
    "successful authenticate() counts as data read with message authentication (FelicaLite switches the NDEF read "
    "to read_with_mac); data falsified during an unprotected read *before* authentication is a modification of the "
    "tag's responses like any other; Type 2 tags have no MAC on reads, their cache behaviour is observed only",
    "Lite-S WCNT: the model advances it on writes with MAC ('mac'), on every write that programs non-volatile memory "
    "('nv') or on RC writes as well ('all') - a reader can rely on none of these (other readers / tag objects write "
    "too), every rule is a legal tag; the verdict of authenticate() must not depend on it.  A second tag object for "
    "the same activated tag and a lost answer to a write are histories, not modifications: authenticate() is judged "
    "only when nothing of its own exchange was modified or lost",
    "a valid response of the *same* session for other blocks spliced in is outside the quantifier (the Lite MAC "
    "does not cover block numbers); observed and counted, not judged",
    "a session is what the TAG sees (it begins with a write of the random challenge RC): a response recorded before "
    "the last RC write belongs to an earlier session whatever authenticate() returned; a whole recorded response of "
    "the same session (stale after a plain write) is not detectable by the scheme and not judged",
    "directed challenges are handed to nfcpy through os.urandom of the tag modules (they are legal random values); "
    "freshness is judged only on values nfcpy drew itself",
    "Lite protect(read_protect=True) -> False is the documented answer; a non-ASCII str password may be refused "
    "(UnicodeError); if protect() accepts it, the key the tag then holds is the reference",
    "selections the tag model refuses (MAC/MAC_A/CK/unknown block in the list, more than 3 data blocks, read "
    "restricted without authentication): any data returned is a violation",
]
REQUIRED = ["sessions_lite", "sessions_lites", "sessions_ntag21x", "sessions_ulc", "auth_true_genuine",
            "auth_not_true_wrong_key", "authT_covered_rejected", "mac_read_untampered_ok", "mac_tamper_data_rejected",
            "mac_tamper_mac_rejected", "mac_replay_rejected", "ndef_read_untampered_ok",
            "ndef_tamper_covered_rejected", "maca_write_ok", "maca_wcnt_tamper_rejected", "protect_auth_pairs_ok",
            "protect_other_password_rejected", "lites_mutual_checked", "authT_forged_write_status_rejected",
            # well-formed responses with another number of blocks / another length
            "authT_reblock_wrong_key_rejected", "authT_reblock_key_held_rejected", "authT_reblock_zero_blocks_rejected",
            "mac_reblock_rejected", "mac_reblock_zero_blocks_rejected", "ndef_reblock_rejected",
            "authT_resize_wrong_key_rejected",
            # protect on tags that hold another key
            "protect_pairs_ok_issuer_key_empty_password/lite", "protect_pairs_ok_issuer_key_empty_password/lites",
            "protect_pairs_ok_issuer_key_empty_password/ntag21x", "protect_pairs_ok_issuer_key_empty_password/ulc",
            "protect_pairs_ok_issuer_key_nonempty_password", "protect_previous_key_rejected", "protect_locked_reached",
            "maca_write_ok_after_prior_writes",
            # session order: reads before / between / after authentications on one tag object
            "order_sessions/lite", "order_sessions/lites", "order_unauth_tampered_read_accepted",
            "order_falsified_before_auth_then_genuine/lite", "order_falsified_before_auth_then_genuine/lites",
            "order_falsified_before_auth_then_rejected/lite", "order_falsified_before_auth_then_rejected/lites",
            "order_mac_reads_after_auth", "order_repeated_read_after_auth_ok", "order_reauth_after_failed_auth",
            "order_read_after_write_ok", "order_read_after_refused_write_ok", "order_rmac_ok",
            "order_rmac_tampered_rejected",
            # Lite-S: later writes with MAC of one tag object (authenticate again, write_with_mac) after the tag's
            # WCNT moved outside what that object saw; protect(p) -> authenticate(p) on the same object
            "order_auth_true_after_earlier_mac_write/mac", "order_auth_true_after_earlier_mac_write/nv",
            "order_auth_true_after_earlier_mac_write/all", "order_auth_true_wcnt_moved_outside/plain-write",
            "order_auth_true_wcnt_moved_outside/rc-write", "order_auth_true_wcnt_moved_outside/other-object",
            "order_auth_true_wcnt_moved_outside/lost-response", "order_wmac_ok", "order_wmac_refused_by_tag",
            "order_second_tag_object", "protect_same_object_auth_ok/lite", "protect_same_object_auth_ok/lites",
            "protect_same_object_auth_ok/ntag21x", "protect_same_object_auth_ok/ulc",
            "protect_same_object_reauth_after_wrong_ok/lites",
            # per family: sessions after activation, the success side of every oracle (a family whose sessions all
            # fail would otherwise "hold" vacuously)
            "sessions_ulev1", "auth_true_genuine/lite", "auth_true_genuine/lites", "auth_true_genuine/ntag21x",
            "auth_true_genuine/ulev1", "auth_true_genuine/ulc", "auth_not_true_wrong_key/lite",
            "auth_not_true_wrong_key/lites", "auth_not_true_wrong_key/ntag21x", "auth_not_true_wrong_key/ulev1",
            "auth_not_true_wrong_key/ulc", "mac_read_untampered_ok/lite", "mac_read_untampered_ok/lites",
            "mac_tamper_data_rejected/lite", "mac_tamper_data_rejected/lites", "mac_tamper_mac_rejected/lite",
            "mac_tamper_mac_rejected/lites", "mac_replay_rejected/lite", "mac_replay_rejected/lites",
            "ndef_read_untampered_ok/lite", "ndef_read_untampered_ok/lites", "ndef_tamper_covered_rejected/lite",
            "ndef_tamper_covered_rejected/lites",
            # several reads with MAC through one tag object: k-th read modified, recordings of the same / an earlier
            # session, failed authenticate() in between
            "hist_sessions/lite", "hist_sessions/lites", "hist_read_ok/lite", "hist_read_ok/lites",
            "hist_repeated_read_ok/lite", "hist_repeated_read_ok/lites", "hist_repeated_read_tamper_rejected/lite",
            "hist_repeated_read_tamper_rejected/lites", "hist_tamper_rejected/repeated-read/data",
            "hist_tamper_rejected/repeated-read/mac", "hist_tamper_rejected/first-read/data",
            "hist_replay_earlier_session_rejected/lite", "hist_replay_earlier_session_rejected/lites",
            "hist_replay_after_failed_auth_reached/lite", "hist_replay_after_failed_auth_reached/lites",
            # block selections at the edges
            "mac_edge_selection_reached/zero-blocks", "mac_edge_selection_reached/too-many-blocks",
            "mac_edge_selection_reached/mac-or-key-block-in-list", "mac_edge_selection_reached/repeated-block",
            "mac_edge_selection_reached/system-block", "mac_edge_selection_reached/unknown-block",
            # whole transcripts, freshness of the challenge
            "transcript_replay_rejected/lite", "transcript_replay_rejected/lites", "transcript_replay_rejected/ulc",
            "fresh_challenges_distinct/lite", "fresh_challenges_distinct/lites", "fresh_challenges_distinct/ulc",
            "challenges_recorded/felica", "challenges_recorded/ulc",
            # directed boundary values
            "auth_true_class/edge-key", "auth_true_class/long-password", "auth_true_class/mac-pattern",
            "auth_true_class/ulc-challenge", "auth_rejected_class/edge-key-near-miss",
            "auth_rejected_class/long-password-tail-held", "mac_pattern_read_ok", "forced_challenge_used",
            "mac_pattern_on_wire/yes",
            # read protection, Type 2 tags that are protected already
            "protect_read_protect_reached/lite", "protect_read_protect_reached/lites",
            "protect_read_protect_reached/ntag21x", "protect_read_protect_reached/ulc", "protect_rp_pairs_ok/lites",
            "protect_rp_pairs_ok/ntag21x", "protect_rp_pairs_ok/ulc", "protect_rp_other_password_rejected/lites",
            "protect_rp_other_password_rejected/ntag21x", "protect_rp_other_password_rejected/ulc",
            "protect_locked_reached/lite", "protect_locked_reached/lites", "protect_locked_reached/ntag21x",
            "protect_locked_reached/ulc", "protect_pairs_ok_locked_key_nonempty_password/ntag21x",
            "protect_pairs_ok_locked_key_nonempty_password/ulc"]

NTAGS = ("ntag210", "ntag212", "ntag213", "ntag215", "ntag216")
ULEV1 = ("ul11", "ul21")
COMMAND_BOUND = 4000       # per activation; a full single-bit enumeration of a 3-block read needs 617 reads

FACTORY = {"lite": bytes(16), "lites": bytes(16), "ntag21x": b"\xFF\xFF\xFF\xFF\x00\x00", "ulev1": b"\xFF\xFF\xFF\xFF\x00\x00",
           "ulc": bytes.fromhex("49454D4B41455242214E4143554F5946")}
KEYLEN = {"lite": 16, "lites": 16, "ntag21x": 6, "ulev1": 6, "ulc": 16}
WCNT_RULES = ("mac", "nv", "all")
COVERED = frozenset(["data", "mac", "wcnt", "pack", "ek-rndb", "ek-rnda"])


def plan(tier, seed):
    n = 16
    if tier == "quick":
        base = dict(auth_felica=100, auth_ntag=500, auth_ulc=30, stripes=1, authT_rand=16, authT_ntag=24,
                    readmac=[2, 1, 1], readmac_rand=30, ndef=1, ndef_rand=6, wmac=10, wmac_stripes=1, protect=1,
                    order=1, order_rand=6, hist=1, hist_rand=2, edges=1, transcript=1, fresh=3, directed=1,
                    protect_rp=1)
        return [dict(base) for _ in range(n)]
    base = dict(auth_felica=800, auth_ntag=5000, auth_ulc=300, stripes=12, authT_rand=200, authT_ntag=400,
                readmac=[20, 10, 6], readmac_rand=400, ndef=10, ndef_rand=80, wmac=150, wmac_stripes=12, protect=8,
                order=8, order_rand=100, hist=8, hist_rand=60, edges=6, transcript=8, fresh=4, directed=6,
                protect_rp=6, timeout=7000)
    return [dict(base) for _ in range(n)]


# ======================================================================================================
# documentation-level key derivation (independent of nfcpy)
# ======================================================================================================
def family(kind):
    if kind in NTAGS:
        return "ntag21x"
    if kind in ULEV1:
        return "ulev1"
    return kind


def pw_bytes(pw):
    return pw.encode("latin-1") if isinstance(pw, str) else bytes(pw)


def pw_obj(pw, ptype):
    """the object handed to nfcpy"""
    if ptype == "str":
        return pw if isinstance(pw, str) else bytes(pw).decode("latin-1")
    if ptype == "bytearray":
        return bytearray(pw_bytes(pw))
    return pw_bytes(pw)


def derive(fam, pw):
    """key material the documentation derives from a password; None = the documentation calls the password invalid"""
    b = pw_bytes(pw)
    if len(b) == 0:
        return FACTORY[fam]
    n = KEYLEN[fam]
    return b[:n] if len(b) >= n else None


def canon(fam, key):
    if fam in ("lite", "lites", "ulc"):
        return bytes(x & 0xFE for x in key)          # DES parity bits do not take part
    return bytes(key)


def holds(ms, pw):
    fam = family(ms["kind"])
    d = derive(fam, pw)
    return d is not None and canon(fam, d) == canon(fam, ms["key"])


def halves_reversed(key):
    key = bytes(key)
    return key[0:8][::-1] + key[8:16][::-1]


# ======================================================================================================
# models from JSON-able specifications, man in the middle
# ======================================================================================================
def build_model(ms):
    k = ms["kind"]
    if k in ("lite", "lites"):
        salt = ms.get("salt", 0)

        def fill(n):
            return bytes((salt * 29 + n * 17 + i * 7 + i * i * (salt | 1)) & 0xFF for i in range(16))
        kw = dict(nmaxb=13, message=bytes(ms.get("msg", b"")), ck_block=halves_reversed(ms["key"]),
                  ndef=ms.get("ndef", True), fill=fill)
        if "idm" in ms:
            kw["idm"] = bytes(ms["idm"])
        if "ic" in ms:
            kw["ic"] = ms["ic"]
        if k == "lites":
            kw["wcnt"] = ms.get("wcnt", 0)
        m = (T3TModel.lite if k == "lite" else T3TModel.lites)(**kw)
        if k == "lites":
            m.wcnt_counts = ms.get("wcnt_counts", "mac")
        if "mc" in ms:
            m.blocks[0x88] = bytearray(ms["mc"])
        for n, d in ms.get("set", []):
            # directed cases: content of single blocks (user blocks, the free half of the ID block)
            m.blocks[int(n)] = bytearray(bytes(d))
        return m
    rng = random.Random(ms.get("uidseed", 1))
    m = t2sim.product_model(k, rng=rng, seed=ms.get("seed", 1))
    if ms.get("msg"):
        msg = bytes(ms["msg"])
        assert len(msg) < 40
        m.mem[16:16 + 3 + len(msg)] = bytes([0x03, len(msg)]) + msg + b"\xFE"
    if k == "ulc":
        m.mem[44 * 4:48 * 4] = halves_reversed(ms["key"])
    else:
        c = m.prod["cfg"] * 4
        m.mem[c + 8:c + 14] = bytes(ms["key"])
    if "auth0" in ms:
        # a tag that is already protected: first page that needs authentication, PROT = also for reading
        if k == "ulc":
            m.mem[42 * 4] = int(ms["auth0"])
            m.mem[43 * 4] = 0x00 if ms.get("prot") else 0x01
        else:
            c = m.prod["cfg"] * 4
            m.mem[c + 3] = int(ms["auth0"])
            m.mem[c + 4] = (m.mem[c + 4] & 0x7F) | (0x80 if ms.get("prot") else 0)
    if ms.get("rndb"):
        m.rng = _FixedRng(ms["rndb"], ms.get("seed", 1))
    m.power_cycle()
    return m


class _FixedRng(object):
    """random source of the Ultralight C model that first hands out chosen RndB bytes"""

    def __init__(self, data, seed):
        self.data = list(bytes(data))
        self.r = random.Random(seed)

    def randrange(self, *a):
        if self.data and a == (256,):
            return self.data.pop(0)
        return self.r.randrange(*a)


def model_key(model, kind):
    """logical key held by a model (same byte order as the password)"""
    if kind in ("lite", "lites"):
        return halves_reversed(model.ck_block)
    if kind == "ulc":
        return halves_reversed(model.mem[44 * 4:48 * 4])
    c = model.prod["cfg"] * 4
    return bytes(model.mem[c + 8:c + 14])


class Mitm(object):
    """man in the middle in front of a tag model.  arm(plan): plan = {index of the command counted from arming:
    action}; action = {"bit": n} | {"xor": [offset, bytes]} | {"replace": bytes} | {"swap": [off1, off2, length]}.
    The genuine model executes every command.  With `cache` set to a dict, FeliCa Read commands that repeat while no
    other command came in between are answered from the cache (the model is deterministic between writes)."""

    def __init__(self, inner):
        self.inner = inner
        self.on_state_change = lambda: None
        self.plan = None
        self.n = 0
        self.trace = []
        self.cache = None
        self.rule = None
        self.rule_on = False
        self.wire = []
        self.wire_wcnt = []       # Lite-S: WCNT of the model after each command of `wire`
        self.lose = None          # session experiments: role of the command whose next response is lost once

    def __getattr__(self, name):
        return getattr(self.inner, name)

    def power_cycle(self):
        if self.cache:
            self.cache.clear()
        self.inner.power_cycle()

    def arm(self, plan=None):
        self.plan = dict(plan or {})
        self.n = 0
        self.trace = []

    def disarm(self):
        self.plan = None

    def command(self, data):
        data = bytes(data)
        if self.cache is not None and len(data) > 1 and data[1] == 0x06:
            if data not in self.cache:
                self.cache[data] = self.inner.command(data)
            rsp = self.cache[data]
        else:
            if self.cache:
                self.cache.clear()
            rsp = self.inner.command(data)
        if self.rule is not None:
            # session experiments: a standing rule (what this attacker does to every response it can), switched on
            # and off per step; everything that crossed the air is kept in `wire`
            out = rsp
            if self.rule_on and rsp is not None:
                out = apply_rule(self.rule, data, rsp)
            if self.lose is not None and rsp is not None and role_of(self.inner.kind, data) == self.lose:
                self.lose, out = None, None          # the tag executed the command, its answer does not arrive
            self.wire.append((data, rsp, out))
            self.wire_wcnt.append(self.inner.wcnt if getattr(self.inner, "kind", None) == "lites" else None)
            return out
        if self.plan is None:
            return rsp
        n = self.n
        self.n += 1
        out = rsp
        act = self.plan.get(n, self.plan.get(str(n)))
        if act is not None and rsp is not None:
            out = apply_action(act, rsp)
        self.trace.append((data, rsp, out))
        return out


def apply_action(act, rsp):
    r = bytearray(rsp)
    if "bit" in act:
        b = act["bit"]
        if b >> 3 < len(r):
            r[b >> 3] ^= 0x80 >> (b & 7)
    elif "xor" in act:
        off, mask = act["xor"][0], bytes(act["xor"][1])
        for i, x in enumerate(mask):
            if off + i < len(r):
                r[off + i] ^= x
    elif "swap" in act:
        a, b, n = act["swap"]
        if max(a, b) + n <= len(r):
            r[a:a + n], r[b:b + n] = r[b:b + n], r[a:a + n]
    elif "graft" in act:
        # part of another (recorded) Read response of the same size put into this one: "data" = all data blocks,
        # the MAC stays as the tag sent it now; "mac" = the 8 MAC bytes, the data stay
        w = bytes(act["with"])
        if len(w) == len(r) and len(r) >= 29 and t3_blocks(rsp) is not None:
            if act["graft"] == "data":
                r[13:-16] = w[13:-16]
            else:
                r[-16:-8] = w[-16:-8]
    elif "replace" in act:
        r = bytearray(act["replace"])
    elif "reblock" in act:
        r = bytearray(reblocked(rsp, act))
    elif "resize" in act:
        n = int(act["resize"])
        fill = bytes(act.get("fill", b"")) or b"\x00"
        r = (r + bytearray((fill * (n // len(fill) + 1))[:max(0, n - len(r))]))[:n]
    return bytes(r)


def apply_rule(rule, cmd, rsp):
    """standing modification used by the session experiments (exp "order"): what the man in the middle does to every
    response it can, for as long as it is switched on
      {"rule": "flip", "block": n, "bit": b}        bit b (0..127) of block n in every FeliCa Read response with block n
      {"rule": "subst", "block": n, "data": 16 B}   block n replaced
      {"rule": "attr-ln", "ln": L}                  length field of the NDEF attribute block (block 0) rewritten and the
                                                    attribute checksum repaired (a shorter / longer message)
      {"rule": "t2-flip", "offset": o, "bit": b}    bit b of memory byte o in every Type 2 READ response that carries it
    Nothing else is touched; a MAC block stays as the tag computed it (the attacker has no key)."""
    r = bytearray(rsp)
    kind = rule["rule"]
    if kind == "t2-flip":
        if len(cmd) == 2 and cmd[0] == 0x30 and len(rsp) == 16:
            o = int(rule["offset"]) - cmd[1] * 4
            if 0 <= o < 16:
                r[o] ^= 0x80 >> (int(rule["bit"]) & 7)
        return bytes(r)
    g = t3_blocks(rsp)
    code, nums = t3_parse(cmd)
    if g is None or code != 0x06 or len(nums) != len(g[1]):
        return rsp
    for j, n in enumerate(nums):
        off = 13 + 16 * j
        if kind == "attr-ln":
            if n == 0:
                ln = int(rule["ln"])
                r[off + 11:off + 14] = bytes([ln >> 16 & 0xFF, ln >> 8 & 0xFF, ln & 0xFF])
                ck = sum(r[off:off + 14])
                r[off + 14:off + 16] = bytes([ck >> 8 & 0xFF, ck & 0xFF])
        elif n == int(rule["block"]):
            if kind == "flip":
                b = int(rule["bit"]) & 127
                r[off + (b >> 3)] ^= 0x80 >> (b & 7)
            else:
                r[off:off + 16] = (bytes(rule["data"]) + bytes(16))[:16]
    return bytes(r)


def t3_blocks(rsp):
    """-> (count octet, [16 byte blocks]) of a successful Read Without Encryption response, else None"""
    if rsp is None or len(rsp) < 13 or rsp[1] != 0x07 or rsp[10] != 0 or (len(rsp) - 13) % 16:
        return None
    return rsp[12], [bytes(rsp[13 + i:29 + i]) for i in range(0, len(rsp) - 13, 16)]


def reblocked(rsp, act):
    """a well-formed Read response that carries another sequence of blocks than the tag sent: act["reblock"] lists
    the genuine blocks to deliver by index (an index outside the genuine response: 16 bytes taken from act["fill"]);
    act["nb"] is the count octet ("keep": as sent by the tag, otherwise the number of blocks delivered); the
    frame length octet is always made right (a frame with a wrong LEN never reaches the tag layer)"""
    g = t3_blocks(rsp)
    if g is None:
        return rsp
    nb, blocks = g
    fill = (bytes(act.get("fill", b"")) + bytes(16))[:16]
    seq = [blocks[i] if 0 <= i < len(blocks) else fill for i in act["reblock"]]
    if len(seq) > 15:
        return rsp
    count = nb if act.get("nb") == "keep" else len(seq)
    out = bytearray(rsp[:12]) + bytes([count]) + b"".join(seq)
    out[0] = len(out)
    return bytes(out)


def reblock_variants(n):
    """block sequences (indices; n or more = filler) for a genuine response of n blocks: nothing, every proper
    prefix and suffix, one block more at either end or in the middle, a duplicated first / last block, two more"""
    F = 99
    full = list(range(n))
    out = [[]]
    out += [full[:k] for k in range(1, n)]
    out += [full[n - k:] for k in range(1, n)]
    out += [full + [F], [F] + full, full + [n - 1], [0] + full, full + [F, F]]
    if n >= 2:
        out += [full[:-1] + [F] + full[-1:], full[1:] + full[:1]]
    seen, uniq = set(), []
    for v in out:
        if tuple(v) not in seen and v != full:
            seen.add(tuple(v))
            uniq.append(v)
    return uniq


def reblock_label(act, n):
    """structural class of a reblock action (goes into counters)"""
    k = len(act["reblock"])
    return "%s-blocks/count-%s" % ("zero" if k == 0 else "fewer" if k < n else "more" if k > n else "same-number",
                                   "kept" if act.get("nb") == "keep" else "adjusted")


# ---- what a response byte is --------------------------------------------------------------------------
def t3_parse(cmd):
    """-> (command code, [block numbers]) of a Polling / Read / Write Without Encryption command"""
    cmd = bytes(cmd)
    code = cmd[1] if len(cmd) > 1 else None
    if code not in (0x06, 0x08) or len(cmd) < 13:
        return code, []
    p = 10
    ns = cmd[p]
    p += 1 + 2 * ns
    if p >= len(cmd):
        return code, []
    nb = cmd[p]
    p += 1
    nums = []
    for _ in range(nb):
        if p + 1 >= len(cmd):
            break
        if cmd[p] & 0x80:
            nums.append(cmd[p + 1])
            p += 2
        else:
            if p + 2 >= len(cmd):
                break
            nums.append(cmd[p + 1] | cmd[p + 2] << 8)
            p += 3
    return code, nums


def role_of(kind, cmd):
    if kind not in ("lite", "lites"):
        return {0x1B: "pwd-auth", 0x1A: "auth1", 0xAF: "auth2", 0x30: "read", 0xA2: "write", 0x60: "version"}.get(
            cmd[0], "other")
    code, nums = t3_parse(cmd)
    if code == 0x00:
        return "polling"
    if code == 0x08:
        if nums[:1] == [0x80]:
            return "rc-write"
        if nums == [0x92, 0x91]:
            return "state-write"
        return "mac-write" if nums[-1:] == [0x91] else "write"
    if code == 0x06:
        if nums == [0x82, 0x81]:
            return "id-read"
        if nums == [0x90]:
            return "wcnt-read"
        if nums == [0x92, 0x81]:
            return "state-read"
        return "mac-read" if nums[-1:] == [0x81] else "plain-read"
    return "other"


def part_of(kind, cmd, rsp, off):
    """name of the field that byte `off` of the genuine response belongs to"""
    if kind not in ("lite", "lites"):
        if cmd[0] == 0x1B:
            return "pack" if len(rsp) == 2 else "nak"
        if cmd[0] == 0x1A:
            return "status" if off == 0 else ("ek-rndb" if len(rsp) == 9 else "nak")
        if cmd[0] == 0xAF:
            return "status" if off == 0 else ("ek-rnda" if len(rsp) == 9 else "nak")
        return "plain"
    if off == 0:
        return "len"
    if off == 1:
        return "code"
    if off < 10:
        return "idm"
    if rsp[1] == 0x01:
        return "polling"
    if off == 10:
        return "sf1"
    if off == 11:
        return "sf2"
    code, nums = t3_parse(cmd)
    if rsp[1] != 0x07 or len(rsp) < 13:
        return "tail"
    if off == 12:
        return "nblk"
    j, o = divmod(off - 13, 16)
    n = nums[j] if j < len(nums) else None
    if n == 0x81:
        return "mac" if o < 8 else "mac-pad"
    if nums[-1:] == [0x81]:
        return "data"
    if n == 0x90 and o < 3:
        return "wcnt"
    return "plain"


def touched(kind, cmd, rsp, out):
    """set of parts in which the delivered response differs from the genuine one"""
    if rsp is None or out is None:
        return set()
    if kind in ("lite", "lites"):
        g, d = t3_blocks(rsp), t3_blocks(out)
        if g is not None and d is not None and len(g[1]) != len(d[1]) and rsp[1:12] == out[1:12]:
            # same header and status, another number of blocks: say which protected quantities are not the genuine ones
            s = {"length"}
            if g[0] != d[0]:
                s.add("nblk")
            if d[1][:len(g[1])] == g[1]:
                s.add("padding")        # everything the tag sent is there, where it was: blocks were only appended
                return s
            nums = t3_parse(cmd)[1]
            if nums[-1:] == [0x81]:
                if d[1][:-1] != g[1][:-1]:
                    s.add("data")
                if not d[1] or d[1][-1][:8] != g[1][-1][:8]:
                    s.add("mac")
            else:
                s.add("wcnt" if nums == [0x90] else "plain")
            return s
    s = set()
    if len(rsp) != len(out):
        s.add("length")
    for i in range(min(len(rsp), len(out))):
        if rsp[i] != out[i]:
            s.add(part_of(kind, cmd, rsp, i))
    return s


# ---- outcomes ----------------------------------------------------------------------------------------
def call(fn):
    try:
        return ("ret", fn())
    except tagdevice.SimTagDevice.Bound:
        raise
    except Exception as e:       # noqa: the property counts any exception as a rejection; kinds are recorded
        return ("exc", e)


def okind(res):
    import nfc.tag
    t, v = res
    if t == "ret":
        if v is True or v is False or v is None:
            return str(v)
        if isinstance(v, (bytes, bytearray)):
            return "data"
        return type(v).__name__
    if isinstance(v, nfc.tag.TagCommandError):
        n = v.errno
        name = {0: "timeout", -1: "receive", -2: "protocol"}.get(n)
        if name is None:
            name = "status-flags" if n > 255 else "0x%02x" % n
        return "TagCommandError:" + name
    return exc_sig(v)


class _OsShim(object):
    """os.urandom of the nfc.tag modules while challenges are FORCED (--replay of a witness, directed challenges):
    hands out the given values (matched by length), then whatever was installed before (recorder / the real thing)"""

    def __init__(self, values, under=os):
        self.values = [bytes(v) for v in values]
        self.under = under

    def urandom(self, n):
        for i, v in enumerate(self.values):
            if len(v) == n:
                return self.values.pop(i)
        return self.under.urandom(n)

    def __getattr__(self, name):
        return getattr(os, name)


class _RecShim(object):
    """os.urandom of a nfc.tag module for a whole shard: RECORDS every value nfcpy draws (the random challenge RC of
    the FeliCa authentication, RndA of the Ultralight C handshake) and passes it on unchanged"""

    def __init__(self):
        self.values = []

    def urandom(self, n):
        v = os.urandom(n)
        self.values.append(v)
        return v

    def __getattr__(self, name):
        return getattr(os, name)


def _challenge_modules():
    import nfc.tag.tt2_nxp
    import nfc.tag.tt3_sony
    return {"felica": nfc.tag.tt3_sony, "ulc": nfc.tag.tt2_nxp}


def install_recorders():
    """-> {"felica": _RecShim, "ulc": _RecShim}; installed once per process"""
    out = {}
    for name, mod in _challenge_modules().items():
        if not isinstance(mod.os, _RecShim):
            mod.os = _RecShim()
        out[name] = mod.os
    return out


@contextlib.contextmanager
def recorded_challenges(values, mode=None):
    if not values or mode == "replay":
        yield
        return
    mods = list(_challenge_modules().values())
    old = [m.os for m in mods]
    shim = None
    for m, o in zip(mods, old):
        # one list of values for both modules (16 bytes: FeliCa RC, 8 bytes: Ultralight C RndA)
        if shim is None:
            shim = _OsShim(values, o)
            m.os = shim
        else:
            m.os = _OsShimView(shim, o)
    try:
        yield
    finally:
        for m, o in zip(mods, old):
            m.os = o


class _OsShimView(object):
    """second module sharing the forced values of an _OsShim (its own fall-back underneath)"""

    def __init__(self, shim, under):
        self.shim, self.under = shim, under

    def urandom(self, n):
        for i, v in enumerate(self.shim.values):
            if len(v) == n:
                return self.shim.values.pop(i)
        return self.under.urandom(n)

    def __getattr__(self, name):
        return getattr(os, name)


class Sess(object):
    """one tag model + man in the middle; open() = fresh frontend, field reset, activation"""

    def __init__(self, ms, R=None):
        self.ms = ms
        self.kind = ms["kind"]
        self.fam = family(self.kind)
        self.model = build_model(ms)
        self.mitm = Mitm(self.model)
        self.devs = []
        self.tag = None
        self.R = R

    def open(self):
        self.mitm.disarm()
        self.clf, self.dev, self.tag = tagdevice.activate(self.mitm, command_bound=COMMAND_BOUND)
        self.devs.append(self.dev)
        if self.R is not None:
            if self.tag is not None:
                # (counted after activation: a session that never produced a tag object observed nothing)
                self.R.count("sessions_" + self.fam)
                self.R.count("sessions_kind_" + self.kind + ("_f2" if self.ms.get("ic") == 0xF2 else ""))
            else:
                self.R.count("sessions_not_activated/" + self.fam)
        return self.tag

    def challenges(self):
        """random challenges nfcpy sent in this Sess so far (FeliCa: taken from the RC block writes on the wire)"""
        out = []
        if self.kind in ("lite", "lites"):
            for dev in self.devs:
                for _n, cmd, _rsp in dev.log:
                    if cmd and len(cmd) > 26 and cmd[1] == 0x08 and t3_parse(cmd)[1][:1] == [0x80]:
                        out.append(halves_reversed(cmd[-16:]))
        return out


def report(R, sess, sig, what, case):
    c = dict(case)
    if sess is not None and case.get("mode") != "replay":
        # (a replayed recording must meet a *fresh* challenge also in --replay: forcing the recorded one could make
        # the old answer valid again, so those cases keep the real os.urandom)
        ch = sess.challenges()
        if ch:
            c["challenge"] = ch
    R.violation(sig, what, c)


# ======================================================================================================
# experiments: each `x_<name>(case, R)` evaluates ONE case (also used by replay)
# ======================================================================================================
def check_tag_class(R, sess, case):
    """set-up sanity: the tag was activated as the class that belongs to the model"""
    want = {"lite": "FelicaLite", "lites": "FelicaLiteS", "ulc": "MifareUltralightC", "ntag210": "NTAG210",
            "ntag212": "NTAG212", "ntag213": "NTAG213", "ntag215": "NTAG215", "ntag216": "NTAG216", "ul11": "MF0UL11",
            "ul21": "MF0UL21"}[sess.kind]
    got = type(sess.tag).__name__
    if got != want:
        R.inconc("setup: %s model activated as %s" % (sess.kind, got))
        return False
    return True


def x_auth(case, R):
    ms, pw, ptype = case["ms"], case["pw"], case.get("ptype", "bytes")
    sess = Sess(ms, R)
    fam = sess.fam
    tag = sess.open()
    R.case(("auth", ms, repr(pw), ptype), nontrivial=tag is not None)
    if tag is None or not check_tag_class(R, sess, case):
        return
    h = holds(ms, pw)
    rel = case.get("rel", "?")
    res = call(lambda: tag.authenticate(pw_obj(pw, ptype)))
    ok = okind(res)
    R.count("auth/%s/%s/%s/%s" % (fam, "holds" if h else "other-key", "str" if ptype == "str" else "bytes", ok))
    is_true = res == ("ret", True)
    if case.get("challenge") and h and fam in ("lite", "lites", "ulc"):
        # directed challenge: did nfcpy put it on the air (and did the tag answer with the intended MAC)?
        R.count("forced_challenge_" + ("used" if wire_challenges(sess)[:1] == [bytes(case["challenge"][0])]
                                       else "not_used"))
        if case.get("target_mac") is not None:
            macs = [r[29:37] for _n, c, r in sess.dev.log if isinstance(r, bytes) and role_of(sess.kind, c) == "id-read"]
            R.count("mac_pattern_on_wire/" + ("yes" if macs[:1] == [bytes(case["target_mac"])] else "no"))
    if h:
        if is_true:
            R.count("auth_true_genuine")
            R.count("auth_true_genuine/" + fam)
            R.count("auth_true_rel/" + rel)
            if "/" in rel:
                R.count("auth_true_class/" + rel.split("/")[0])
        elif ptype == "str":
            R.count("str_password_rejected/%s/authenticate/%s" % (fam, ok))
        else:
            report(R, sess, "auth/false-negative/%s/%s" % (fam, ok),
                   "%s model holds the key derived from the %s password (relation %s) and nothing was modified, "
                   "authenticate() -> %s" % (sess.kind, ptype, rel, describe(res)), case)
    else:
        if is_true:
            report(R, sess, "auth/false-positive/%s/%s" % (fam, rel),
                   "authenticate() returned True although the %s model holds a different key (relation %s)"
                   % (sess.kind, rel), case)
        else:
            R.count("auth_not_true_wrong_key")
            R.count("auth_not_true_wrong_key/" + fam)
            R.count("auth_rejected_rel/%s/%s" % (rel, ok))
            R.count("auth_reject_kind/%s/%s" % (fam, ok))
            if "/" in rel:
                R.count("auth_rejected_class/" + rel.split("/")[0])
    post_auth_checks(R, sess, res, case)


def post_auth_checks(R, sess, res, case):
    tag = sess.tag
    is_true = res == ("ret", True)
    ia = call(lambda: tag.is_authenticated)
    if ia[0] == "ret" and bool(ia[1]) and not is_true:
        report(R, sess, "auth/is_authenticated-after-failure/%s" % sess.fam,
               "authenticate() -> %s in a fresh session but tag.is_authenticated is True" % describe(res), case)
    if is_true and sess.kind == "lites":
        R.count("lites_mutual_checked")
        if not sess.model.ext_auth:
            report(R, sess, "auth/mutual-not-achieved/lites",
                   "FelicaLiteS.authenticate() returned True but the tag model never saw a valid external "
                   "authentication (EXT_AUTH is 0)", case)


def post_auth_checks_obj(R, sess, who, res, case):
    """post_auth_checks for another tag object of the session"""
    old, sess.tag = sess.tag, who
    try:
        post_auth_checks(R, sess, res, case)
    finally:
        sess.tag = old


def describe(res):
    if res[0] == "ret":
        return "returned %r" % (res[1] if not isinstance(res[1], (bytes, bytearray)) else bytes(res[1]).hex(),)
    return "raised %r" % (res[1],)


def x_auth_tamper(case, R):
    """the model holds key(p) unless case['ms'] says otherwise; one response of the exchange is modified"""
    ms, pw = case["ms"], case["pw"]
    sess = Sess(ms, R)
    fam = sess.fam
    tag = sess.open()
    if tag is None or not check_tag_class(R, sess, case):
        R.case(("authT", ms, case["tamper"]), nontrivial=False)
        return
    at = int(case["tamper"]["at"])
    plan_ = {at: case["tamper"]}
    also = case["tamper"].get("also")          # a second response modified in the same exchange
    if also:
        plan_[int(also["at"])] = also
    sess.mitm.arm(plan_)
    res = call(lambda: tag.authenticate(pw_obj(pw, case.get("ptype", "bytes"))))
    tr = sess.mitm.trace
    sess.mitm.disarm()
    applied = at < len(tr) and tr[at][1] is not None and tr[at][1] != tr[at][2]
    if also:
        k = int(also["at"])
        applied = applied and k < len(tr) and tr[k][1] is not None and tr[k][1] != tr[k][2]
    R.case(("authT", ms, repr(pw), case["tamper"]), nontrivial=applied)
    if not applied:
        R.count("authT_not_applied")
        return
    cmd, rsp, out = tr[at]
    role = role_of(sess.kind, cmd)
    parts = touched(sess.kind, cmd, rsp, out)
    label = list(parts)[0] if len(parts) == 1 else "multi"
    covered = bool(parts & COVERED)
    ok = okind(res)
    is_true = res == ("ret", True)
    mode = case.get("mode", "bit")
    if mode in ("reblock", "resize"):
        # structurally valid response of another size: the class (not the bytes that differ) names the case
        label = "block-count" if mode == "reblock" else "length"
        cls = (reblock_label(case["tamper"], len(t3_blocks(rsp)[1])) if mode == "reblock" else
               "%s-%s" % (role, "shorter" if len(out) < len(rsp) else "longer"))
        R.count("authT_%s/%s/%s/%s/%s" % (mode, fam, "key-held" if holds(ms, pw) else "other-key", cls,
                                          "accepted" if is_true else "rejected"))
        R.seen("authT_%s_roles/%s" % (mode, fam), role)
        if not is_true:
            R.count("authT_%s_%s_rejected" % (mode, "key_held" if holds(ms, pw) else "wrong_key"))
            if mode == "reblock" and not case["tamper"]["reblock"]:
                R.count("authT_reblock_zero_blocks_rejected")
    R.count("authT/%s/%s/%s/%s" % (fam, role, label, "accepted" if is_true else "rejected"))
    if not is_true:
        R.count("authT_reject_kind/%s/%s" % (fam, ok))
    if mode == "forged-write-status":
        R.count("authT_forged_write_status_" + ("accepted" if is_true else "rejected"))
    if "bit" in case["tamper"]:
        R.seen("authT_positions/" + sess.kind, "%d:%d" % (at, case["tamper"]["bit"]))
    if is_true and covered:
        what = ("authenticate() returned True although the %s response (%s) was modified on the air in %s"
                % (role, mode, sorted(parts)))
        if mode == "replay":
            sig = "auth/accepted-replay/%s/%s" % (fam, role)
        elif mode == "forged-write-status":
            sig = "auth/accepted-tampered/%s/forged-write-status" % fam
        elif not holds(ms, pw):
            sig = "auth/false-positive/%s/%s-%s" % (fam, mode if mode in ("reblock", "resize") else "substituted", role)
        else:
            sig = "auth/accepted-tampered/%s/%s/%s" % (fam, role, label)
        report(R, sess, sig, what, case)
    elif is_true and not holds(ms, pw):
        report(R, sess, "auth/false-positive/%s/%s-%s" % (fam, mode if mode in ("reblock", "resize") else "tampered",
                                                          role),
               "authenticate() returned True although the model holds another key (%s response modified in %s, %s)"
               % (role, sorted(parts), mode), case)
    elif covered:
        R.count("authT_covered_rejected")
    else:
        R.count("authT_uncovered_" + ("accepted" if is_true else "rejected"))
    post_auth_checks(R, sess, res, case)


# ---- FeliCa: reads with MAC ---------------------------------------------------------------------------
def expected_blocks(model, numbers):
    out = bytearray()
    for n in numbers:
        if n == 0x80:
            out += bytes(16)
        elif n == 0x92:
            out += bytes([1 if model.ext_auth else 0]) + bytes(15)
        else:
            out += model.get_block(n)
    return bytes(out)


def expected_or_none(model, numbers):
    """content the model holds for a read_with_mac selection; None when the tag model refuses that Read (more blocks
    than one command carries, MAC / MAC_A / CK in the list, unknown block, read restricted without authentication)"""
    numbers = [int(n) for n in numbers]
    if len(numbers) + 1 > getattr(model, "max_read", 4) or any(n > 0xFF or n < 0 for n in numbers):
        return None
    err, payload = model._read_lite(numbers + [0x81])
    if err is not None:
        return None
    return bytes(payload[:-16])


def setup_authenticated(case, R, sess):
    tag = sess.open()
    if tag is None or not check_tag_class(R, sess, case):
        return None
    res = call(lambda: tag.authenticate(pw_obj(case["pw"], "bytes")))
    if res != ("ret", True):
        R.count("setup_authenticate_failed")      # judged by the auth experiment; here the case is trivial
        return None
    return tag


def readmac_session(case, R, tampers, sess=None, cache=True):
    """authenticate once, read untampered, then one read per modification in `tampers` (list of actions)"""
    ms, blocks = case["ms"], [int(b) for b in case["blocks"]]
    sess = sess or Sess(ms, R)
    fam = sess.fam
    tag = setup_authenticated(case, R, sess)
    if tag is None:
        R.case(("rmac", ms, blocks), nontrivial=False)
        return sess
    if cache:
        sess.mitm.cache = {}
    want = expected_or_none(sess.model, blocks)
    sess.mitm.arm({})
    res = call(lambda: tag.read_with_mac(*blocks))
    R.case(("rmac", ms, blocks, None))
    base_ok = False
    if res[0] == "ret" and isinstance(res[1], (bytes, bytearray)):
        if want is None:
            report(R, sess, "mac/returned-data-for-refused-read/%s" % fam,
                   "read_with_mac%r returned %s although the tag model refuses to read this block list"
                   % (tuple(blocks), bytes(res[1]).hex()), dict(case, tamper=None))
        elif bytes(res[1]) == want:
            base_ok = True
            R.count("mac_read_untampered_ok")
            R.count("mac_read_untampered_ok/" + fam)
            R.count("mac_read_blocks_%d" % len(blocks))
        else:
            report(R, sess, "mac/returned-wrong-data/%s/untampered" % fam,
                   "read_with_mac%r returned %s, the model holds %s" % (tuple(blocks), bytes(res[1]).hex(), want.hex()),
                   dict(case, tamper=None))
    else:
        # (the statement does not promise that a genuine response is accepted; counted per family, and the tamper
        # verdict counters below then do not count: a rejection proves nothing when the genuine response is rejected too)
        R.count("mac_read_untampered_rejected/%s/%s" % (fam, okind(res)))
        if want is None:
            R.count("mac_read_refused_by_tag/%s/%s" % (fam, okind(res)))
    for act in tampers:
        sess.mitm.arm({0: act})
        res = call(lambda: tag.read_with_mac(*blocks))
        tr = sess.mitm.trace
        sess.mitm.disarm()
        judge_read(R, sess, dict(case, tamper=act, mode="reblock" if "reblock" in act else case.get("mode", "bit")),
                   tr, res, want, blocks, base_ok)
    sess.mitm.cache = None
    return sess


def judge_read(R, sess, case, tr, res, want, blocks, base_ok=True):
    """base_ok: the untampered read of the same selection in the same session returned the model's data (rejections of
    modified responses count towards the REQUIRED counters only then; a returned value is judged in any case)"""
    fam, act = sess.fam, case["tamper"]
    applied = len(tr) > 0 and tr[0][1] is not None and tr[0][1] != tr[0][2]
    R.case(("rmac", case["ms"], blocks, act), nontrivial=applied)
    if not applied:
        R.count("mac_tamper_not_applied")
        return
    cmd, rsp, out = tr[0]
    parts = touched(sess.kind, cmd, rsp, out)
    label = list(parts)[0] if len(parts) == 1 else "multi"
    mode = case.get("mode", "bit")
    returned = res[0] == "ret" and isinstance(res[1], (bytes, bytearray))
    if "bit" in act:
        R.seen("mac_positions/%d-blocks" % len(blocks), act["bit"])
    if mode == "reblock":
        label = "block-count"
        R.count("mac_reblock/%s/%s/%s" % (fam, reblock_label(act, len(blocks) + 1),
                                          "returned-data" if returned else "rejected"))
        if not returned and base_ok:
            R.count("mac_reblock_rejected")
            if not act["reblock"]:
                R.count("mac_reblock_zero_blocks_rejected")
    if mode == "splice":
        # a genuine answer of this very session for other blocks: outside the quantifier, observed only
        R.count("mac_same_session_splice_" + ("accepted" if returned else "rejected"))
        return
    R.count("mac/%s/%s/%s" % (fam, label if mode == "bit" else mode, "returned-data" if returned else "rejected"))
    if not returned:
        R.count("mac_reject_kind/%s" % okind(res))
        R.count("mac_reject_kind/%s/%s" % (fam, okind(res)))
        if not base_ok:
            R.count("mac_tamper_rejected_without_baseline/" + fam)
        elif mode == "replay":
            R.count("mac_replay_rejected")
            R.count("mac_replay_rejected/" + fam)
        elif mode == "reblock":
            pass
        elif "data" in parts:
            R.count("mac_tamper_data_rejected")
            R.count("mac_tamper_data_rejected/" + fam)
        elif "mac" in parts:
            R.count("mac_tamper_mac_rejected")
            R.count("mac_tamper_mac_rejected/" + fam)
        else:
            R.count("mac_tamper_uncovered_rejected")
        return
    got = bytes(res[1])
    if want is None:
        report(R, sess, "mac/returned-data-for-refused-read/%s" % fam,
               "read_with_mac%r returned %s although the tag model refuses to read this block list (response "
               "modified in %s, %s)" % (tuple(blocks), got.hex(), sorted(parts), mode), case)
    elif got != want:
        sig = ("mac/accepted-replay/%s" % fam if mode == "replay" else
               "mac/accepted-tampered/%s/%s" % (fam, label if mode == "reblock" else
                                                "data" if "data" in parts else label))
        report(R, sess, sig, "read_with_mac%r returned %s while the model holds %s (response modified in %s, %s)"
               % (tuple(blocks), got.hex(), want.hex(), sorted(parts), mode), case)
    elif parts & COVERED:
        sig = ("mac/accepted-replay/%s" % fam if mode == "replay" else "mac/accepted-tampered/%s/%s" % (fam, label))
        report(R, sess, sig, "read_with_mac%r returned the data although %s of the response was modified (%s): "
               "the modification was not detected" % (tuple(blocks), sorted(parts), mode), case)
    else:
        R.count("mac_tamper_uncovered_accepted_correct_data")


def x_read_mac(case, R):
    with recorded_challenges(case.get("challenge"), case.get("mode")):
        readmac_session(case, R, [case["tamper"]] if case.get("tamper") else [], cache=False)


# ---- FeliCa: NDEF read on an authenticated tag --------------------------------------------------------
def model_message(model):
    a = model.get_block(0)
    ln = a[11] << 16 | a[12] << 8 | a[13]
    data = b"".join(model.get_block(n) for n in range(1, 1 + (ln + 15) // 16))
    return data[:ln]


LAST = {}          # out-of-band results of the last experiment call for the workload functions (never part of a verdict)


def x_ndef_read(case, R):
    ms = case["ms"]
    sess = Sess(ms, R)
    fam = sess.fam
    with recorded_challenges(case.get("challenge"), case.get("mode")):
        tag = setup_authenticated(case, R, sess)
        if tag is None:
            R.case(("ndef", ms, case.get("tamper")), nontrivial=False)
            return None
        want = model_message(sess.model)
        act = case.get("tamper")
        sess.mitm.arm({int(act["at"]): act} if act else {})
        res = call(lambda: (lambda n: None if n is None else bytes(n.octets))(tag.ndef))
    tr = sess.mitm.trace
    sess.mitm.disarm()
    returned = res[0] == "ret" and res[1] is not None
    if act is None:
        R.case(("ndef", ms, None))
        LAST["ndef_ok"] = returned and res[1] == want
        if returned and res[1] == want:
            R.count("ndef_read_untampered_ok")
            R.count("ndef_read_untampered_ok/" + fam)
            R.max("ndef_message_len", len(want))
        elif returned:
            report(R, sess, "ndef/returned-wrong-data/%s/untampered" % fam,
                   "tag.ndef.octets = %s on an authenticated tag, the model holds %s" % (res[1].hex(), want.hex()), case)
        else:
            R.count("ndef_read_untampered_rejected/%s/%s" % (fam, okind(res)))
        return tr
    at = int(act["at"])
    applied = at < len(tr) and tr[at][1] is not None and tr[at][1] != tr[at][2]
    R.case(("ndef", ms, act), nontrivial=applied)
    if not applied:
        R.count("ndef_tamper_not_applied")
        return tr
    cmd, rsp, out = tr[at]
    role = role_of(sess.kind, cmd)
    parts = touched(sess.kind, cmd, rsp, out)
    label = list(parts)[0] if len(parts) == 1 else "multi"
    covered = bool(parts & COVERED) and role == "mac-read"
    if "bit" in act:
        R.seen("ndef_positions", "%d:%d" % (at, act["bit"]))
    if "reblock" in act:
        label = "block-count"
        R.count("ndef_reblock/%s/%s/%s/%s" % (fam, role, reblock_label(act, len(t3_blocks(rsp)[1])),
                                              "returned-data" if returned else "rejected"))
        if not returned and role == "mac-read":
            R.count("ndef_reblock_rejected")
    R.count("ndef/%s/%s/%s/%s" % (fam, role, label, "returned-data" if returned else "rejected"))
    if not returned:
        R.count("ndef_reject_kind/%s" % okind(res))
        R.count("ndef_reject_kind/%s/%s" % (fam, okind(res)))
        R.count("ndef_tamper_covered_rejected" if covered else "ndef_tamper_uncovered_rejected")
        if covered:
            R.count("ndef_tamper_covered_rejected/" + fam)
    elif res[1] != want:
        report(R, sess, "ndef/accepted-tampered/%s/%s/%s" % (fam, role, label if "reblock" in act else
                                                             "data" if "data" in parts else label),
               "tag.ndef.octets = %s on an authenticated tag while the model holds %s (%s response modified in %s)"
               % (res[1].hex(), want.hex(), role, sorted(parts)), case)
    elif covered:
        report(R, sess, "ndef/accepted-tampered/%s/%s/%s" % (fam, role, label),
               "tag.ndef returned the message although %s of a MAC protected read response was modified"
               % sorted(parts), case)
    else:
        R.count("ndef_tamper_uncovered_accepted_correct_data")
    return tr


# ---- Lite-S: write with MAC ---------------------------------------------------------------------------
def x_write_mac(case, R):
    ms, block, data = case["ms"], int(case["block"]), bytes(case["data"])
    sess = Sess(ms, R)
    model = sess.model
    with recorded_challenges(case.get("challenge"), case.get("mode")):
        tag = setup_authenticated(case, R, sess)
        if tag is None:
            R.case(("wmac", ms, block, case.get("tamper")), nontrivial=False)
            return None
        act = case.get("tamper")
        pre_ok = 0
        for b, d in case.get("pre", []):
            # earlier writes of the same session: every one moves WCNT, which takes part in the next MAC_A
            n0 = len(model.write_log)
            r0 = call(lambda: tag.write_with_mac(bytes(d), int(b)))
            new0 = model.write_log[n0:]
            if r0 == ("ret", None) and new0 and new0[-1][1] and new0[-1][0] == [int(b), 0x91]:
                pre_ok += 1
            elif r0 == ("ret", None):
                report(R, sess, "maca/success-but-model-rejected/untampered",
                       "write_with_mac (an earlier write of the session) returned normally but the tag model did "
                       "not apply the write", case)
        wcnt_before = bytes(model.blocks[0x90][0:3])
        rc, ck = model.rc_block, model.ck_block
        nlog = len(model.write_log)
        sess.mitm.arm({int(act["at"]): act} if act else {})
        res = call(lambda: tag.write_with_mac(data, block))
    tr = sess.mitm.trace
    sess.mitm.disarm()
    applied_t = act is None or (int(act["at"]) < len(tr) and tr[int(act["at"])][1] != tr[int(act["at"])][2])
    R.case(("wmac", ms, block, data, act, case.get("pre")), nontrivial=applied_t)
    if not applied_t:
        R.count("maca_tamper_not_applied")
        return tr
    wr = [(i, t) for i, t in enumerate(tr) if t3_parse(t[0])[0] == 0x08]
    new = model.write_log[nlog:]
    model_applied = bool(new) and new[-1][1] and new[-1][0] == [block, 0x91]
    success = res == ("ret", None)
    parts = set()
    if act is not None:
        cmd, rsp, out = tr[int(act["at"])]
        parts = touched(sess.kind, cmd, rsp, out)
        role = role_of(sess.kind, cmd)
        label = list(parts)[0] if len(parts) == 1 else "multi"
        R.count("maca/%s/%s/%s" % (role, label, "success" if success else "rejected"))
        if "bit" in act:
            R.seen("maca_positions", "%d:%d" % (int(act["at"]), act["bit"]))
    write_rsp_tampered = act is not None and wr and int(act["at"]) == wr[-1][0]
    if model_applied:
        cmd = wr[-1][1][0]
        maca_block = cmd[-16:]
        ref = felica_mac.mac_a_write(ck, rc, wcnt_before, block, data)
        if bytes(maca_block[0:8]) != ref or bytes(maca_block[8:11]) != wcnt_before:
            report(R, sess, "maca/model-accepted-invalid-mac", "the tag model applied a write whose MAC_A/WCNT differ "
                   "from the reference computation (simulator defect?)", case)
        if block <= 0x0E and model.get_block(block) != data:
            report(R, sess, "maca/applied-other-data", "block %d holds %s after write_with_mac(%s)"
                   % (block, model.get_block(block).hex(), data.hex()), case)
        R.count("maca_wire_mac_verified")
    if success and not model_applied and not write_rsp_tampered:
        cause = "untampered" if act is None else "%s-tampered" % (list(parts)[0] if len(parts) == 1 else "multi")
        report(R, sess, "maca/success-but-model-rejected/%s" % cause,
               "write_with_mac returned normally but the tag model did not apply the write", case)
    elif success and model_applied:
        R.count("maca_write_ok" if act is None else "maca_write_ok_uncovered_tamper")
        if act is None:
            LAST["wmac_ok"] = True
        if act is None and case.get("pre") and pre_ok == len(case["pre"]):
            R.count("maca_write_ok_after_prior_writes")
            R.max("maca_writes_in_one_session", pre_ok + 1)
    elif not success:
        if act is None:
            R.count("maca_untampered_rejected/%s" % okind(res))
        else:
            R.count("maca_reject_kind/%s" % okind(res))
            if "wcnt" in parts:
                R.count("maca_wcnt_tamper_rejected")
    return tr


# ---- protect -> authenticate --------------------------------------------------------------------------
def x_protect(case, R):
    """case["prior"]: state of the tag before protect()
         factory  the factory key (default)
         issuer   another key (ms["key"]), everything still writable: a personalised tag that was never locked
         locked   another key, system blocks locked (FeliCa, ms["mc"]); case["pre_auth"]: authenticate with the
                  key the tag holds first.  Here protect() may refuse; only a reported success is judged."""
    ms, pw, ptype = case["ms"], case["pw"], case.get("ptype", "bytes")
    prior = case.get("prior", "factory")
    sess = Sess(ms, R)
    fam, kind = sess.fam, sess.kind
    tag = sess.open()
    rp = bool(case.get("rp"))
    R.case(("protect", ms, repr(pw), ptype, case.get("pf", 0), prior, case.get("pre_auth"), rp),
           nontrivial=tag is not None)
    if tag is None or not check_tag_class(R, sess, case):
        return
    key = derive(fam, pw)
    empty = len(pw_bytes(pw)) == 0
    if case.get("pre_auth"):
        if call(lambda: tag.authenticate(bytes(ms["key"]))) != ("ret", True):
            R.count("setup_authenticate_failed")
    if rp:
        res = call(lambda: tag.protect(pw_obj(pw, ptype), read_protect=True, protect_from=int(case.get("pf", 0))))
    else:
        res = call(lambda: tag.protect(pw_obj(pw, ptype), protect_from=int(case.get("pf", 0))))
    ok = okind(res)
    R.count("protect/%s/%s/%s/len-%s/%s" % (fam, prior, ptype, "valid" if key is not None else "invalid", ok))
    if rp:
        R.count("protect_read_protect/%s/%s/%s" % (fam, prior, ok))
        if key is not None:
            R.count("protect_read_protect_reached/" + fam)
    nonascii = ptype == "str" and any(ord(c) > 0x7F for c in pw_obj(pw, "str"))
    if key is None:
        if res == ("ret", True):
            report(R, sess, "protect/accepted-invalid-password/%s" % fam,
                   "protect() returned True for a %d byte password, the documentation demands at least %d"
                   % (len(pw_bytes(pw)), KEYLEN[fam]), case)
        else:
            R.count("protect_invalid_length_rejected")
        return
    if prior == "locked":
        R.count("protect_locked_reached")
        R.count("protect_locked_reached/" + fam)
    if res != ("ret", True):
        if prior == "locked":
            R.count("protect_locked_not_true")
            R.count("protect_locked_refused/%s/%s/%s" % (fam, "after-auth" if case.get("pre_auth") else "no-auth", ok))
            return
        if ptype == "str" and fam != "lites":
            R.count("str_password_rejected/%s/protect/%s" % (fam, ok))
            return
        if nonascii and res[0] == "exc" and isinstance(res[1], UnicodeError):
            # a str that is not ASCII: which bytes it stands for is not documented; refusing it is not a wrong result
            R.count("str_password_rejected/%s/protect-non-ascii/%s" % (fam, ok))
            return
        if rp and fam == "lite" and res == ("ret", False):
            # "Read protection is not supported" (docstring of FelicaLite.protect): the documented answer
            R.count("protect_read_protect_refused/lite")
            return
        report(R, sess, "protect/failed/%s/%s/%s" % (fam, ptype, ok),
               "protect() of a %s %s tag (all blocks writable) with a valid %d byte %s password %s"
               % (prior, kind, len(pw_bytes(pw)), ptype, describe(res)), case)
        return
    cls = "%s_key_%s_password" % (prior, "empty" if empty else "nonempty")
    stored = model_key(sess.model, kind)
    stored_ok = canon(fam, stored) == canon(fam, key)
    if nonascii:
        # no documented key for such a password: what the tag now holds is the reference for "any other password"
        key, stored_ok = stored, True
        R.count("protect_non_ascii_str_accepted/" + fam)
    if not stored_ok:
        report(R, sess, "protect/wrong-key-stored/%s" % fam,
               "protect() returned True on a %s tag (%s), the tag model now holds %s, the key derived from the "
               "password is %s" % (kind, prior, stored.hex(), key.hex()), case)
        # (the authentications below are still made and judged: what counts is what the tag answers)
    else:
        R.count("protect_key_stored_ok")
    # the same tag object goes on (no new activation): protect(p) followed by authenticate(p).  On Lite-S protect()
    # itself authenticated (a write with MAC) and then made plain writes; the STATE write of this authenticate is a
    # later write with MAC of the same object, the tag's WCNT has moved in between under every counting rule but "mac"
    res = call(lambda: tag.authenticate(pw_obj(pw, ptype)))
    if res == ("ret", True):
        R.count("protect_same_object_auth_ok/%s" % fam)
        post_auth_checks(R, sess, res, case)
    else:
        report(R, sess, "protect-auth/same-object/same-password-fails/%s/%s/%s" % (fam, ptype, okind(res)),
               "protect(p) returned True on a %s tag (%s); authenticate(p) on the same tag object with the same %s "
               "object %s" % (kind, prior, ptype, describe(res)), case)
    if fam in ("lite", "lites") and case.get("others"):
        # (FeliCa only: a Type 2 tag that answered NAK waits for a new activation)
        first_ok = res == ("ret", True)
        qr = [(q_, r_) for q_, r_ in case["others"] if canon(fam, derive(fam, q_) or b"") != canon(fam, key)]
        if qr:
            q, rel = qr[0]
            res = call(lambda: tag.authenticate(pw_bytes(q)))
            if res == ("ret", True):
                report(R, sess, "protect-auth/same-object/other-password-accepted/%s/%s" % (fam, rel),
                       "after protect(p), same tag object: authenticate(q) returned True for a q that derives "
                       "another key (%s)" % rel, case)
            else:
                R.count("protect_same_object_other_password_rejected")
            res = call(lambda: tag.authenticate(pw_obj(pw, ptype)))
            if res == ("ret", True):
                R.count("protect_same_object_reauth_after_wrong_ok/%s" % fam)
            else:
                report(R, sess, "protect-auth/same-object/same-password-fails/%s/%s/%s/after-wrong-password"
                       % (fam, ptype, okind(res)),
                       "protect(p) True, authenticate(p) %s, authenticate(q), then authenticate(p) on the same "
                       "tag object %s" % ("True" if first_ok else "not True", describe(res)), case)
    # a new session: the same password (the very same kind of object) must authenticate
    tag = sess.open()
    res = call(lambda: tag.authenticate(pw_obj(pw, ptype)))
    if res == ("ret", True):
        R.count("protect_auth_pairs_ok")
        R.count("protect_auth_pairs_ok/%s/%s" % (fam, ptype))
        R.count("protect_pairs_ok_" + cls)
        R.count("protect_pairs_ok_%s/%s" % (cls, fam))
        post_auth_checks(R, sess, res, case)
        if rp:
            R.count("protect_rp_pairs_ok/" + fam)
            restricted = read_restricted(sess.model, kind)
            R.count("protect_rp_model_read_restricted/%s/%s" % (fam, "yes" if restricted else "no"))
            if kind == "lites" and restricted:
                # a read restricted block after the mutual authentication: what comes back is what the tag holds
                n = restricted[0]
                r2 = call(lambda: tag.read_with_mac(n))
                if r2[0] == "ret" and isinstance(r2[1], (bytes, bytearray)):
                    if bytes(r2[1]) == sess.model.get_block(n):
                        R.count("protect_rp_read_with_mac_ok")
                    else:
                        report(R, sess, "mac/returned-wrong-data/lites/untampered",
                               "read_with_mac(%d) of a read protected block after authenticate() returned %s, the "
                               "model holds %s" % (n, bytes(r2[1]).hex(), sess.model.get_block(n).hex()), case)
                else:
                    R.count("protect_rp_read_with_mac_rejected/%s" % okind(r2))
    else:
        report(R, sess, "protect-auth/same-password-fails/%s/%s/%s" % (fam, ptype, okind(res)),
               "protect(p) returned True on a %s tag (%s); in a new session authenticate(p) with the same %s object %s"
               % (kind, prior, ptype, describe(res)), case)
    if ptype == "str":
        tag = sess.open()
        res = call(lambda: tag.authenticate(pw_bytes(pw)))
        if res == ("ret", True):
            R.count("protect_str_auth_bytes_ok")
        else:
            report(R, sess, "protect-auth/same-password-fails/%s/str-then-bytes/%s" % (fam, okind(res)),
                   "protect(str) returned True; authenticate(bytes of the same characters) %s" % describe(res), case)
    for q, rel in case.get("others", []):
        tag = sess.open()
        res = call(lambda: tag.authenticate(pw_bytes(q)))
        hq = canon(fam, derive(fam, q) or b"") == canon(fam, key)
        if hq:
            if res == ("ret", True):
                R.count("protect_equivalent_password_accepted/" + rel)
            else:
                report(R, sess, "auth/false-negative/%s/%s" % (fam, okind(res)),
                       "after protect(p): authenticate(q) with a q that derives the same key (%s) %s"
                       % (rel, describe(res)), case)
        elif res == ("ret", True):
            report(R, sess, "protect-auth/other-password-accepted/%s/%s" % (fam, rel),
                   "after protect(p) authenticate(q) returned True for a q that derives another key (%s)" % rel, case)
        else:
            R.count("protect_other_password_rejected")
            R.count("protect_other_rejected/%s/%s" % (rel, okind(res)))
            if rp:
                R.count("protect_rp_other_password_rejected/" + fam)
            if rel == "previous-key":
                R.count("protect_previous_key_rejected")


def read_restricted(model, kind):
    """pages / blocks of the tag model that can be read only after authentication (what read_protect=True asks for)"""
    if kind == "lites":
        bits = model.mc[6] | model.mc[7] << 8
        return [n for n in range(14) if bits >> n & 1]
    if kind == "lite":
        return []
    m = model.mem
    if kind == "ulc":
        return list(range(m[42 * 4], 44)) if (m[43 * 4] & 1) == 0 else []
    c = model.prod["cfg"] * 4
    return list(range(m[c + 3], model.npages)) if m[c + 4] & 0x80 else []


# ---- session order: reads, authentications, writes in one session on one tag object ---------------------
def t2_message(model):
    m = model.mem
    return bytes(m[18:18 + m[17]]) if m[16] == 0x03 and m[17] != 0xFF else None


def genuine_message(sess):
    return model_message(sess.model) if sess.kind in ("lite", "lites") else t2_message(sess.model)


def records_view(records):
    return [(r.type, r.name, bytes(r.data)) for r in records]


def ndef_view(tag):
    """what the application sees of the NDEF message through tag.ndef: None or (octets, length, records | None)"""
    n = tag.ndef
    if n is None:
        return None
    octets, length = bytes(n.octets), n.length
    try:
        recs = records_view(n.records)
    except Exception:     # noqa: a message that does not decode (random octets); octets and length are still judged
        recs = None
    return octets, length, recs


def reference_records(octets):
    import ndef
    try:
        return records_view(ndef.message_decoder(octets, errors="relax"))
    except Exception:     # noqa
        return None


def step_label(st):
    op = st["op"]
    pre = "o:" if st.get("o") else ""
    if op == "auth":
        return pre + "auth" + ("+" if st.get("right") else "-") + ("!" if st.get("lose") else "")
    return pre + op + ("*" if st.get("t") else "") + ("!" if st.get("lose") else "")


def x_order(case, R):
    """one session on ONE tag object: case["steps"] is a list over
         {"op": "ndef"}                      tag.ndef -> octets, length, records
         {"op": "auth", "pw": p}             tag.authenticate(p)      ("right": whether p is the tag's password)
         {"op": "write", "data": d}          tag.ndef.octets = d
         {"op": "rmac", "blocks": [..]}      tag.read_with_mac(*blocks)                       (FeliCa)
         {"op": "changed"}                   tag.ndef.has_changed (a forced re-read)
         {"op": "wmac", "block": n, "data": d}    tag.write_with_mac(d, n)                    (Lite-S)
         {"op": "wplain", "block": n, "data": d}  tag.write_without_mac(d, n)
       auth / wmac / wplain steps with "o": 1 go through a SECOND tag object made for the same, still activated tag
       (nfc.tag.activate(clf, tag.target)); with "lose": role the tag's answer to the first command of that role in
       the step (a write with MAC, the STATE write of authenticate) does not arrive: the tag executed the write, the
       reader can not know.  These steps move the tag's write counter WCNT - which takes part in the MAC_A of every
       later write with MAC, the STATE write of the Lite-S mutual authentication included - in ways the tag object does
       not see; under which Write commands WCNT advances is part of the tag model (ms["wcnt_counts"]).
       every step with "t": 1 runs while the man in the middle applies case["rule"] (apply_rule) to every response.
       Judged (FeliCa Lite / Lite-S): every authenticate() result; every read_with_mac() result; every NDEF result
       handed to the application while the last authenticate() returned True is the message the tag model holds or a
       failure - whether it comes from a new read or from the object cached by an earlier (unprotected) read.
       Returning cached *genuine* data without a new read is fine.  write_with_mac() that reports success was
       applied by the model (which verifies MAC_A and WCNT); a refused / failed one is counted.  Type 2 families have
       no message authentication for reads: their sessions are recorded, not judged."""
    ms, rule, steps = case["ms"], case["rule"], case["steps"]
    sess = Sess(ms, R)
    fam, kind = sess.fam, sess.kind
    felica = kind in ("lite", "lites")
    tag = sess.open()
    key = ("order", ms, rule, steps)
    if tag is None or not check_tag_class(R, sess, case):
        R.case(key, nontrivial=False)
        return
    mitm, model = sess.mitm, sess.model
    mitm.rule, mitm.wire, mitm.wire_wcnt = rule, [], []
    R.count("order_sessions/" + fam)
    R.seen("order_sequences/" + ("felica" if felica else "t2"), " ".join(step_label(st) for st in steps))
    authed = False            # the last authenticate() of this session returned True
    failed_before = False     # an authenticate() of this session returned something else than True
    falsified = None          # octets an unprotected read handed out that the tag never held (nothing genuine since)
    after_write = after_failed_write = False
    genuine_since_auth = False
    unknown = False           # a write failed half way: cache and tag may differ for reasons outside this property
    judged = 0
    objs = {0: tag}           # 0: the tag object of the session, 1: a second object for the same activated tag
    view, causes, macw, diverged = {}, {}, {}, {}
    wcnt0 = model.wcnt if kind == "lites" else None

    def obj(st):
        oid = 1 if st.get("o") else 0
        if oid not in objs:
            import nfc.tag
            objs[oid] = nfc.tag.activate(sess.clf, tag.target)
            R.count("order_second_tag_object")
        return oid, objs[oid]

    def account(oid, w0):
        """Lite-S, after a step of tag object `oid`: which commands moved the tag's WCNT, and whether a reader that
        counts its own successful writes with MAC (view) would still know it (bookkeeping for counters/signatures)"""
        diverged.pop(oid, None)
        if kind != "lites":
            return
        for k in range(w0, len(mitm.wire)):
            cmd, rsp, out = mitm.wire[k]
            role = role_of(kind, cmd)
            before = mitm.wire_wcnt[k - 1] if k > 0 else wcnt0
            moved = mitm.wire_wcnt[k] != before
            if role in ("state-write", "mac-write"):
                macw[oid] = macw.get(oid, 0) + 1
                if oid not in view:
                    view[oid], causes[oid] = int.from_bytes(cmd[-8:-5], "little"), set()
                if moved and out is not None and out == rsp:
                    view[oid] = (view[oid] + 1) & 0xFFFFFF
                elif moved:
                    causes[oid].add("lost-response")
                if moved:
                    for o2 in view:
                        if o2 != oid:
                            causes[o2].add("other-object")
            elif role == "wcnt-read" and oid in view and rsp is not None and rsp == out:
                if before != view[oid]:
                    diverged[oid] = set(causes[oid]) or {"unexplained"}
                view[oid], causes[oid] = before, set()
            elif moved:
                for o2 in view:
                    causes[o2].add("rc-write" if role == "rc-write" else "plain-write")

    def in_message_area(block):
        return block <= (len(genuine_message(sess) or b"") + 15) // 16

    def viol(sig, what, i):
        report(R, sess, sig, "step %d (%s) of [%s]: %s" % (i, step_label(steps[i]),
                                                          " ".join(step_label(x) for x in steps), what), case)

    for i, st in enumerate(steps):
        op = st["op"]
        mitm.rule_on = bool(st.get("t"))
        w0 = len(mitm.wire)
        if op == "auth":
            oid, who = obj(st)
            earlier = macw.get(oid, 0)
            mitm.lose = st.get("lose")
            res = call(lambda: who.authenticate(pw_obj(st["pw"], "bytes")))
            mitm.rule_on, mitm.lose = False, None
            account(oid, w0)
            is_true = res == ("ret", True)
            h = holds(ms, st["pw"])
            touched_ = any(r is not None and r != o for _c, r, o in mitm.wire[w0:])
            if touched_ and st.get("lose"):
                R.count("order_auth_response_lost/%s" % okind(res))
            if felica and not touched_:
                judged += 1
                if h and not is_true:
                    viol("order/auth-false-negative/%s/%s%s" % (fam, okind(res),
                                                                "/after-earlier-mac-write" if earlier else ""),
                         "the model holds the key of this password, nothing of the exchange was modified, "
                         "authenticate() %s%s" % (describe(res), " (%d write(s) with MAC were sent through this tag "
                                                  "object before; WCNT rule of the model: %s)"
                                                  % (earlier, ms.get("wcnt_counts", "mac")) if earlier else ""), i)
                elif not h and is_true:
                    viol("order/auth-false-positive/%s" % fam,
                         "authenticate() returned True although the model holds another key", i)
                elif is_true:
                    R.count("order_auth_in_session_true")
                    if failed_before and not oid:
                        R.count("order_reauth_after_failed_auth")
                    if earlier:
                        R.count("order_auth_true_after_earlier_mac_write/%s" % ms.get("wcnt_counts", "mac"))
                    for c in diverged.get(oid, ()):
                        R.count("order_auth_true_wcnt_moved_outside/" + c)
                else:
                    R.count("order_auth_in_session_rejected")
            R.count("order_auth/%s/%s" % (fam, okind(res)))
            if oid:
                # (a new challenge was written: the session key the first tag object holds is void; what it reads
                # with MAC from now on does not verify - "genuine or a failure" stays the oracle)
                R.count("order_auth_other_object/%s" % okind(res))
                if is_true and felica:
                    post_auth_checks_obj(R, sess, who, res, case)
                continue
            authed = is_true
            genuine_since_auth = False
            failed_before = failed_before or not is_true
            if is_true and felica:
                post_auth_checks(R, sess, res, case)
            continue
        if op in ("wmac", "wplain"):
            oid, who = obj(st)
            block, data = int(st["block"]), bytes(st["data"])
            hits_message = in_message_area(block)
            nlog = len(model.write_log)
            mitm.lose = st.get("lose")
            if op == "wmac":
                res = call(lambda: who.write_with_mac(data, block))
            else:
                res = call(lambda: who.write_without_mac(data, block))
            mitm.rule_on, mitm.lose = False, None
            account(oid, w0)
            new = model.write_log[nlog:]
            applied_w = any(ok_ and nums == ([block, 0x91] if op == "wmac" else [block]) for nums, ok_ in new)
            lost = any(r is not None and o is None for _c, r, o in mitm.wire[w0:])
            success = res == ("ret", None)
            if applied_w and hits_message:
                unknown = True          # the message area was written behind the NDEF object's back: not judged any more
            if op == "wplain":
                R.count("order_wplain/%s/%s" % ("applied" if applied_w else "refused", okind(res)))
                continue
            if success and not applied_w:
                viol("order/wmac-success-but-model-rejected/%s" % fam, "write_with_mac(block %d) returned normally but "
                     "the tag model did not apply the write" % block, i)
            elif success:
                judged += 1
                R.count("order_wmac_ok")
                for c in diverged.get(oid, ()):
                    R.count("order_wmac_ok_wcnt_moved_outside/" + c)
                if block <= 0x0E and model.get_block(block) != data:
                    viol("order/wmac-applied-other-data/%s" % fam, "block %d holds %s after write_with_mac(%s)"
                         % (block, model.get_block(block).hex(), data.hex()), i)
            else:
                R.count("order_wmac_failed/%s/%s/%s" % ("response-lost" if lost else "quiet",
                                                        "applied" if applied_w else "not-applied", okind(res)))
                if not lost and not applied_w and new and new[-1][0] == [block, 0x91]:
                    R.count("order_wmac_refused_by_tag")
            continue
        want = genuine_message(sess)
        if op == "ndef":
            res = call(lambda: ndef_view(tag))
            mitm.rule_on = False
            account(0, w0)
            wire = mitm.wire[w0:]
            applied = any(r is not None and r != o for _c, r, o in wire)
            roles = [role_of(kind, c) for c, _r, _o in wire]
            macreads = roles.count("mac-read")
            # reads of the message area that carry no MAC (the Lite-S look at the MC block is not one)
            plainreads = sum(1 for (c, _r, _o), role in zip(wire, roles) if role == "read" or (
                role == "plain-read" and any(n <= 0x0E for n in t3_parse(c)[1])))
            returned = res[0] == "ret" and res[1] is not None
            state = "authenticated" if authed else "not-authenticated"
            R.count("order_ndef/%s/%s/%s/%s" % (fam, state, "tampering" if applied else "quiet",
                                                ("genuine" if res[1][0] == want else "other-data") if returned
                                                else "failure"))
            if not (felica and authed) or unknown:
                # no message authentication (yet): what comes back is recorded; a falsified message is remembered
                if returned and res[1][0] != want:
                    falsified = res[1][0]
                    if applied:
                        R.count("order_unauth_tampered_read_accepted")
                elif returned:
                    falsified = None
                if not felica and authed:
                    R.count("order_t2_after_auth/%s/%s" % (fam, "failure" if not returned else "genuine" if
                                                          res[1][0] == want else "falsified-by-this-read" if applied
                                                          else "stale-falsified" if not wire else "other-data"))
                if unknown:
                    R.count("order_unjudged_after_failed_write")
                continue
            judged += 1
            R.count("order_mac_reads_after_auth", macreads)
            R.count("order_plain_reads_after_auth", plainreads)
            if not returned:
                if applied:
                    R.count("order_tampered_read_after_auth_rejected")
                    if falsified is not None:
                        R.count("order_falsified_before_auth_then_rejected/" + fam)
                else:
                    R.count("order_ndef_after_auth_quiet_failure/%s/%s" % (fam, okind(res)))
                continue
            octets, length, recs = res[1]
            if octets != want:
                if not wire:
                    cls = "stale-ndef-after-authenticate" if octets == falsified else "cached-ndef-not-tag-content"
                    how = ("no command went to the tag: the object cached %s authentication was handed out"
                           % ("by an unprotected read before" if octets == falsified else "before"))
                elif applied:
                    cls = "accepted-tampered/" + rule["rule"]
                    how = "%d read(s) with MAC, %d without; the man in the middle was active" % (macreads, plainreads)
                else:
                    cls = "returned-wrong-data"
                    how = "%d read(s) with MAC, %d without, none modified" % (macreads, plainreads)
                viol("order/%s/%s" % (cls, fam), "authenticate() had returned True; tag.ndef.octets = %s while the tag "
                     "model holds %s (%s)" % (octets.hex(), want.hex(), how), i)
                continue
            if length != len(want):
                viol("order/length-differs/%s" % fam, "tag.ndef.length = %d, the message the model holds has %d octets"
                     % (length, len(want)), i)
            ref = reference_records(want)
            if ref is not None and recs != ref:
                viol("order/records-differ/%s" % fam, "tag.ndef.records are not the records of the message the "
                     "model holds", i)
            if wire:
                R.count("order_ndef_after_auth_reread_genuine")
                if falsified is not None:
                    R.count("order_falsified_before_auth_then_genuine/" + fam)
            else:
                R.count("order_ndef_after_auth_cached_genuine")
            if genuine_since_auth:
                R.count("order_repeated_read_after_auth_ok")
            genuine_since_auth = True
            if after_write:
                R.count("order_read_after_write_ok")
                after_write = False
            if after_failed_write:
                R.count("order_read_after_refused_write_ok")
                after_failed_write = False
            falsified = None
        elif op == "write":
            before = want
            def do_write():
                n = tag.ndef
                if n is None:
                    return "no-ndef-object"
                n.octets = bytes(st["data"])

            res = call(do_write)
            mitm.rule_on = False
            account(0, w0)
            now = genuine_message(sess)
            R.count("order_write/%s/%s/%s" % (fam, "authenticated" if authed else "not-authenticated", okind(res)))
            if res == ("ret", None) and now == bytes(st["data"]):
                after_write = True
                falsified = None
                R.count("order_write_ok")
            elif now != before:
                unknown = True
            elif res[0] == "exc" and authed:
                after_failed_write = True      # nothing reached the tag (the attribute read did not verify)
        elif op == "rmac":
            blocks = [int(b) for b in st["blocks"]]
            wantb = expected_blocks(model, blocks)
            res = call(lambda: tag.read_with_mac(*blocks))
            mitm.rule_on = False
            account(0, w0)
            applied = any(r is not None and r != o for _c, r, o in mitm.wire[w0:])
            if res[0] == "ret" and isinstance(res[1], (bytes, bytearray)):
                judged += 1
                if bytes(res[1]) != wantb:
                    viol("order/rmac-wrong-data/%s/%s" % (fam, "tampered" if applied else "quiet"),
                         "read_with_mac%r returned %s, the model holds %s" % (tuple(blocks), bytes(res[1]).hex(),
                                                                              wantb.hex()), i)
                elif applied:
                    viol("order/rmac-accepted-tampered/%s" % fam, "read_with_mac%r returned data although the "
                         "response was modified" % (tuple(blocks),), i)
                else:
                    R.count("order_rmac_ok")
            elif applied:
                R.count("order_rmac_tampered_rejected")
            else:
                R.count("order_rmac_quiet_failure/%s/%s" % ("authenticated" if authed else "not-authenticated",
                                                            okind(res)))
        elif op == "changed":
            res = call(lambda: tag.ndef.has_changed)
            mitm.rule_on = False
            account(0, w0)
            R.count("order_has_changed/%s" % okind(res))
    mitm.rule = None
    R.case(key, nontrivial=judged > 0 or not felica)


# ---- read_with_mac histories on one tag object ------------------------------------------------------------
def hist_label(st):
    if st["op"] == "auth":
        return "A" + ("~" if st.get("act") else "+" if st.get("right") else "-")
    if st["op"] == "wplain":
        return "P"
    a = st.get("act")
    if not a:
        return "R"
    if "from" in a:
        return "R<%s%d" % ({"data": "d", "mac": "m"}.get(a.get("graft"), ""), a["from"])
    return "R*"


def x_hist(case, R):
    """several read_with_mac() calls (and authentications, plain writes) on ONE tag object, FeliCa Lite / Lite-S.
    case["steps"] is a list over
      {"op": "auth", "pw": p, "right": bool[, "act": {"at": i, ...}]}   tag.authenticate(p); with "act" response i of
                                                         the exchange is modified (an authentication that fails on the way)
      {"op": "rmac", "blocks": [...], "act": None | action}             tag.read_with_mac(*blocks); action as for
                                                         Mitm.arm, or {"from": j}: the response the TAG sent in step j
                                                         (an earlier rmac step, same or another selection, same or an
                                                         earlier session) is delivered instead of the genuine one;
                                                         {"from": j, "graft": "data" | "mac"}: only its data blocks /
                                                         only its MAC put into the genuine response
      {"op": "wplain", "block": n, "data": d}                           tag.write_without_mac(d, n): the tag's content
                                                         moves on, a recorded response is then stale
    A "session" is what the tag sees: it starts with a write of the random challenge.  Judged for every rmac step:
      * nothing modified, data returned: it is what the model holds
      * response modified in data or MAC (any k-th read of a selection, first or repeated): nothing is returned
      * the recorded response of an EARLIER session delivered: nothing is returned - also when the authenticate()
        in between did not return True (then there is no session key at all under which it could verify)
      * whole recorded responses of the SAME session (the MAC covers neither a counter nor the block numbers) are
        outside the quantifier: observed, not judged
    Rejections count towards the REQUIRED counters only when a genuine read was accepted earlier in the same session."""
    ms, steps = case["ms"], case["steps"]
    sess = Sess(ms, R)
    fam, kind = sess.fam, sess.kind
    tag = sess.open()
    key = ("hist", ms, steps)
    if tag is None or not check_tag_class(R, sess, case):
        R.case(key, nontrivial=False)
        return
    mitm, model = sess.mitm, sess.model
    R.count("hist_sessions/" + fam)
    R.seen("hist_sequences", " ".join(hist_label(st) for st in steps))
    authed = False             # the last authenticate() that reached the tag returned True
    ever_true = False
    rec = {}                   # step -> (response as the tag sent it, RC block of the tag then, selection)
    good = {}                  # selection -> genuine reads accepted in the current session
    judged = 0

    def viol(sig, what, i):
        report(R, sess, sig, "step %d (%s) of [%s]: %s" % (i, hist_label(steps[i]),
                                                          " ".join(hist_label(x) for x in steps), what), case)

    for i, st in enumerate(steps):
        op = st["op"]
        if op == "auth":
            rc0 = model.rc_block
            act = st.get("act")
            mitm.arm({int(act["at"]): act} if act else {})
            res = call(lambda: tag.authenticate(pw_obj(st["pw"], "bytes")))
            tr = mitm.trace
            mitm.disarm()
            is_true = res == ("ret", True)
            modified = any(r is not None and r != o for _c, r, o in tr)
            R.count("hist_auth/%s/%s/%s" % (fam, "modified" if modified else "quiet", okind(res)))
            if not modified:
                judged += 1
                h = holds(ms, st["pw"])
                if h and not is_true:
                    viol("hist/auth-false-negative/%s/%s" % (fam, okind(res)), "the model holds the key of this "
                         "password, nothing was modified, authenticate() %s" % describe(res), i)
                elif is_true and not h:
                    viol("hist/auth-false-positive/%s" % fam, "authenticate() returned True although the model "
                         "holds another key", i)
            elif is_true and any(touched(kind, c, r, o) & COVERED for c, r, o in tr if r is not None and o is not None):
                viol("hist/auth-accepted-tampered/%s" % fam, "authenticate() returned True although a response of "
                     "the exchange was modified in a MAC protected part", i)
            if model.rc_block != rc0 or is_true:
                # the tag received a new challenge: a new session for the tag, whatever the reader thinks
                good = {}
                authed = is_true
                ever_true = ever_true or is_true
                if not is_true and ever_true:
                    R.count("hist_failed_authenticate_after_successful_one/" + fam)
            if is_true:
                post_auth_checks(R, sess, res, case)
            continue
        if op == "wplain":
            res = call(lambda: tag.write_without_mac(bytes(st["data"]), int(st["block"])))
            R.count("hist_wplain/%s" % okind(res))
            continue
        blocks = [int(b) for b in st["blocks"]]
        sel = tuple(blocks)
        want = expected_or_none(model, blocks)
        act = st.get("act")
        src = None
        if act and "from" in act:
            src = rec.get(int(act["from"]))
            if src is None:
                R.count("hist_replay_source_missing")
                act = None
            elif act.get("graft"):
                act = {"graft": act["graft"], "with": src[0]}
            else:
                act = {"replace": src[0]}
        mitm.arm({0: act} if act else {})
        res = call(lambda: tag.read_with_mac(*blocks))
        tr = mitm.trace
        mitm.disarm()
        returned = res[0] == "ret" and isinstance(res[1], (bytes, bytearray))
        got = bytes(res[1]) if returned else None
        genuine = tr[0][1] if tr else None
        applied = bool(tr) and genuine is not None and tr[0][2] != genuine
        if genuine is not None and t3_blocks(genuine) is not None:
            rec[i] = (genuine, model.rc_block, sel)
        nth = "repeated-read" if good.get(sel) else "first-read"
        state = "authenticated" if authed else "after-failed-authenticate" if ever_true else "never-authenticated"
        if not applied:
            R.count("hist_read/%s/%s/%s/%s" % (fam, state, nth, "data" if returned else okind(res)))
            if not tr:
                R.count("hist_read_not_sent/%s/%s" % (state, okind(res)))      # RuntimeError: no session key
                if src is not None and not st["act"].get("graft") and ever_true and not authed:
                    # the recording of the earlier session was ready, the reader did not even ask the tag
                    R.count("hist_replay_after_failed_auth_reached/" + fam)
                    R.count("hist_replay_after_failed_auth_rejected/" + fam)
                continue
            judged += 1
            if returned and want is None:
                viol("mac/returned-data-for-refused-read/%s" % fam, "read_with_mac%r returned %s although the tag "
                     "model refuses this block list" % (sel, got.hex()), i)
            elif returned and got != want:
                viol("mac/returned-wrong-data/%s/untampered" % fam, "read_with_mac%r returned %s, the model holds %s"
                     % (sel, got.hex(), want.hex()), i)
            elif returned:
                if authed:
                    good[sel] = good.get(sel, 0) + 1
                    R.count("hist_read_ok/" + fam)
                    if good[sel] > 1:
                        R.count("hist_repeated_read_ok/" + fam)
                        R.max("hist_reads_of_one_selection", good[sel])
                else:
                    R.count("hist_genuine_read_returned_without_true_authenticate/" + fam)     # observed
            elif want is None:
                R.count("hist_read_refused_by_tag/%s/%s" % (fam, okind(res)))
            continue
        # ---- a modified response was delivered
        cmd, rsp, out = tr[0]
        parts = touched(kind, cmd, rsp, out)
        label = list(parts)[0] if len(parts) == 1 else "multi"
        base_ok = bool(good)
        if src is not None:
            earlier = src[1] != model.rc_block
            same_sel = src[2] == sel
            how = {"data": "data-of-recording", "mac": "mac-of-recording"}.get(st["act"].get("graft"), "whole-response")
            R.count("hist_replay/%s/%s/%s/%s/%s/%s" % (fam, state, "earlier-session" if earlier else "same-session",
                                                       "same-selection" if same_sel else "other-selection", how,
                                                       "returned-data" if returned else "rejected"))
            if how == "whole-response" and not earlier:
                continue                      # same session, whole recorded response: outside the quantifier
            if how == "whole-response":
                judged += 1
                if not authed and ever_true:
                    R.count("hist_replay_after_failed_auth_reached/" + fam)
                if returned:
                    if authed:
                        sig = "mac/accepted-replay/%s/earlier-session" % fam
                    else:
                        sig = "mac/accepted-replay/%s/stale-session-key-after-failed-authenticate" % fam
                    viol(sig, "read_with_mac%r returned %s for the response recorded in step %d of an earlier "
                         "session (the tag has a new challenge since; last authenticate() %s); the model holds %s"
                         % (sel, got.hex(), int(st["act"]["from"]), "returned True" if authed else "did not return "
                            "True: there is no session key", want.hex() if want is not None else None), i)
                elif base_ok and authed:
                    R.count("hist_replay_earlier_session_rejected/" + fam)
                elif not authed and ever_true:
                    R.count("hist_replay_after_failed_auth_rejected/" + fam)
                continue
        judged += 1
        R.count("hist_tamper/%s/%s/%s/%s/%s" % (fam, state, nth, label, "returned-data" if returned else "rejected"))
        if not returned:
            R.count("hist_reject_kind/%s/%s" % (fam, okind(res)))
            if base_ok and authed and parts & COVERED:
                R.count("hist_tamper_rejected/%s/%s" % (nth, "data" if "data" in parts else label))
                if nth == "repeated-read":
                    R.count("hist_repeated_read_tamper_rejected/" + fam)
            continue
        if want is None:
            viol("mac/returned-data-for-refused-read/%s" % fam, "read_with_mac%r returned %s (response modified), the "
                 "tag model refuses this block list" % (sel, got.hex()), i)
        elif got != want or parts & COVERED:
            sig = "mac/accepted-tampered/%s/%s/%s" % (fam, nth, "data" if "data" in parts else label)
            if ever_true and not authed:
                # no session key exists.  If what was delivered is, in data and MAC, a response of an earlier
                # session (put together from a recording), this is the replay under the stale key; anything else
                # that gets through in this state is named after the state
                dm = (bytes(out[13:-16]), bytes(out[-16:-8]))
                old = any(r[1] != model.rc_block and (bytes(r[0][13:-16]), bytes(r[0][-16:-8])) == dm
                          for r in rec.values())
                sig = ("mac/accepted-replay/%s/stale-session-key-after-failed-authenticate" % fam if old else
                       "mac/accepted-tampered/%s/after-failed-authenticate/%s" % (fam, label))
            viol(sig, "read_with_mac%r returned %s although the response was modified in %s (%s of this selection in "
                 "the session, %s); the model holds %s" % (sel, got.hex(), sorted(parts), nth, state, want.hex()), i)
        else:
            R.count("hist_tamper_uncovered_accepted_correct_data")
    R.case(key, nontrivial=judged > 0)


# ---- the whole transcript of an earlier session played again -------------------------------------------------
def x_transcript(case, R):
    """a counterfeit: EVERY response is the one recorded in an earlier, genuine session (case["record"], in command
    order) - against a tag that holds another key or the same key; the reader draws a fresh challenge.
    authenticate() must not return True, read_with_mac() must not return data.  NTAG21x / Ultralight EV1 send
    password and PACK in plain text, a recording answers every later authentication: observed, not judged."""
    ms, pw, record = case["ms"], case["pw"], [bytes(r) for r in case["record"]]
    sess = Sess(ms, R)
    fam = sess.fam
    tag = sess.open()
    key = ("transcript", ms, repr(pw), case.get("blocks"), len(record))
    if tag is None or not check_tag_class(R, sess, case):
        R.case(key, nontrivial=False)
        return
    sess.mitm.arm({i: {"replace": r} for i, r in enumerate(record)})
    res = call(lambda: tag.authenticate(pw_bytes(pw)))
    rd = None
    if fam in ("lite", "lites") and case.get("blocks") is not None:
        rd = call(lambda: tag.read_with_mac(*[int(b) for b in case["blocks"]]))
    tr = sess.mitm.trace
    sess.mitm.disarm()
    applied = any(r is not None and r != o for _c, r, o in tr)
    R.case(key, nontrivial=applied)
    who = "other-key" if not holds(ms, pw) else "same-key"
    is_true = res == ("ret", True)
    R.count("transcript/%s/%s/%s" % (fam, who, "accepted" if is_true else okind(res)))
    if not applied:
        R.count("transcript_not_applied")
        return
    if fam in ("ntag21x", "ulev1"):
        R.count("transcript_plaintext_scheme_observed/%s/%s" % (fam, "accepted" if is_true else "rejected"))
        return
    if is_true:
        report(R, sess, "auth/accepted-replay/%s/full-transcript" % fam,
               "authenticate() returned True against a %s tag although every response was the recording of an earlier "
               "session (another challenge)" % who, case)
    else:
        R.count("transcript_replay_rejected/" + fam)
    if rd is not None:
        if rd[0] == "ret" and isinstance(rd[1], (bytes, bytearray)):
            report(R, sess, "mac/accepted-replay/%s/full-transcript" % fam,
                   "read_with_mac returned %s from the recording of an earlier session (authenticate() %s)"
                   % (bytes(rd[1]).hex(), describe(res)), case)
        else:
            R.count("transcript_replay_read_rejected/%s/%s" % (fam, okind(rd)))
    post_auth_checks(R, sess, res, case)


# ---- freshness of the random challenge -------------------------------------------------------------------
def wire_challenges(sess):
    """the challenges nfcpy put on the air in this Sess, in order (FeliCa: RC block writes; Ultralight C: RndA from
    the AF command, decrypted with the key the model holds - only meaningful when nfcpy used that key)"""
    if sess.kind in ("lite", "lites"):
        return sess.challenges()
    out = []
    if sess.kind == "ulc":
        from pyDes import triple_des, CBC
        key = model_key(sess.model, "ulc")
        for dev in sess.devs:
            prev = None
            for _n, cmd, rsp in dev.log:
                if cmd and cmd[0] == 0xAF and len(cmd) == 17 and isinstance(prev, bytes) and len(prev) == 9:
                    out.append(bytes(triple_des(key, CBC, prev[1:9]).decrypt(bytes(cmd[1:])))[0:8])
                prev = rsp if isinstance(rsp, bytes) and cmd and cmd[0] == 0x1A else None
    return out


def x_fresh(case, R):
    """case["n"] authenticate() calls through one tag object, the same number after a new activation of the same tag:
    the random challenges (taken from the wire) are pairwise different"""
    ms, pw, n = case["ms"], case["pw"], int(case.get("n", 3))
    recs = install_recorders()
    drawn0 = {k: len(v.values) for k, v in recs.items()}
    sess = Sess(ms, R)
    fam = sess.fam
    marks = []
    for act in range(2):
        tag = sess.open()
        if tag is None or not check_tag_class(R, sess, case):
            R.case(("fresh", ms, n), nontrivial=False)
            return
        for _ in range(n):
            res = call(lambda: tag.authenticate(pw_bytes(pw)))
            R.count("fresh_auth/%s/%s" % (fam, okind(res)))
        marks.append(len(wire_challenges(sess)))
    ch = wire_challenges(sess)
    R.case(("fresh", ms, n), nontrivial=len(ch) >= 2)
    R.count("fresh_challenges_on_wire/" + fam, len(ch))
    drawn = sum(len(v.values) - drawn0[k] for k, v in recs.items())
    R.count("fresh_challenges_drawn/" + fam, drawn)
    if len(ch) < 2:
        return
    first = {}
    rep_same = rep_across = False
    for i, c in enumerate(ch):
        if c in first:
            if (i < marks[0]) == (first[c] < marks[0]):
                rep_same = True
            else:
                rep_across = True
        else:
            first[c] = i
    if rep_same or rep_across:
        report(R, None, "auth/challenge-repeated/%s/%s" % (fam, "same-tag-object" if rep_same else "new-activation"),
               "%d authenticate() calls sent only %d different random challenges (%s)"
               % (len(ch), len(first), ", ".join(c.hex() for c in ch[:4])), case)
    else:
        R.count("fresh_challenges_distinct/" + fam)
    if len(ch) != drawn:
        R.count("fresh_wire_vs_drawn_differ/" + fam)


def shard_freshness(R, recs):
    """end of a shard: everything nfcpy drew from os.urandom for a challenge in this process (forced challenges of
    directed cases are not among them) is pairwise different"""
    for name, rec in sorted(recs.items()):
        vals = rec.values
        R.count("challenges_recorded/" + name, len(vals))
        R.count("challenges_recorded_distinct/" + name, len(set(vals)))
        if len(set(vals)) < len(vals):
            kind = "lite" if name == "felica" else "ulc"
            fam = family(kind)
            ms = ({"kind": kind, "key": FACTORY[fam], "salt": 1, "msg": b"", "ndef": True} if name == "felica"
                  else {"kind": kind, "key": FACTORY[fam], "uidseed": 1, "seed": 1})
            R.violation("auth/challenge-repeated/%s/within-shard" % name,
                        "%d random challenges drawn in this shard, only %d different" % (len(vals), len(set(vals))),
                        {"exp": "fresh", "ms": ms, "pw": b"", "n": 4})


EXPERIMENTS = {"auth": x_auth, "auth-tamper": x_auth_tamper, "read-mac": x_read_mac, "ndef-read": x_ndef_read,
               "write-mac": x_write_mac, "protect": x_protect, "order": x_order, "hist": x_hist,
               "transcript": x_transcript, "fresh": x_fresh}


def evaluate(case, R):
    try:
        if case["exp"] in ("auth", "auth-tamper", "protect", "order", "hist", "transcript"):
            with recorded_challenges(case.get("challenge"), case.get("mode")):
                return EXPERIMENTS[case["exp"]](case, R)
        return EXPERIMENTS[case["exp"]](case, R)
    except tagdevice.SimTagDevice.Bound as e:
        R.inconc("command bound exceeded in %s: %s" % (case["exp"], e))


def replay(case, R):
    evaluate(case, R)


# ======================================================================================================
# workload
# ======================================================================================================
def gen_password(rng, fam, ptype, length=None):
    n = KEYLEN[fam]
    if length is None:
        length = rng.choice([0, 1, n - 1, n, n, n, n + 1, n + 1, 32, 64] + ([16] if n == 6 else []))
    if ptype == "str":
        return "".join(chr(rng.randrange(0x20, 0x7F)) for _ in range(length))
    return rng.randbytes(length)


def flip_bit(key, bit):
    k = bytearray(key)
    k[bit >> 3] ^= 0x80 >> (bit & 7)
    return bytes(k)


def gen_model_key(rng, fam, pw):
    """-> (logical key for the model, relation label)"""
    n = KEYLEN[fam]
    d = derive(fam, pw)
    des = fam in ("lite", "lites", "ulc")
    if d is None:
        b = pw_bytes(pw)
        c = rng.randrange(4)
        if c == 0:
            return (b + bytes(n))[:n], "short-zero-padded"
        if c == 1:
            return (b * n)[:n], "short-repeated"
        if c == 2:
            return FACTORY[fam], "short-vs-factory"
        return rng.randbytes(n), "short-vs-random"
    c = rng.randrange(10)
    if c < 4:
        return d, "same"
    if c == 4 and des:
        k = bytearray(d)
        for i in range(n):
            if rng.random() < 0.5:
                k[i] ^= 1
        return bytes(k), "parity-equivalent"
    if c in (4, 5, 6):
        if des:
            bit = rng.randrange(n) * 8 + rng.randrange(7)          # bits 7..1 of a byte: not a parity bit
            return flip_bit(d, bit), "one-bit"
        bit = rng.randrange(n * 8)
        return flip_bit(d, bit), "one-bit-pwd" if bit < 32 else "one-bit-pack"
    if c == 7:
        return rng.randbytes(n), "random"
    if c == 8:
        if d == FACTORY[fam]:
            return rng.randbytes(n), "random"
        return FACTORY[fam], "factory"
    if fam in ("ntag21x", "ulev1"):
        if rng.random() < 0.5:
            return d[:4] + rng.randbytes(2), "pwd-same-pack-random"
        return rng.randbytes(4) + d[4:], "pwd-random-pack-same"
    return d[8:] + d[:8], "halves-swapped"


def t3_spec(rng, kind, key, msg=None, ndef=None):
    ms = {"kind": kind, "key": bytes(key), "salt": rng.randrange(1 << 16),
          "idm": bytes([0x02, 0xFE]) + rng.randbytes(6), "ndef": rng.random() < 0.8 if ndef is None else ndef}
    if msg is None:
        msg = rng.randbytes(rng.choice([0, 1, 15, 16, 17, 40, 48, 49, 100, 208, rng.randrange(209)]))
    ms["msg"] = bytes(msg)
    if kind == "lites":
        ms["wcnt"] = rng.choice([0, 1, 0xFF, 0x100, 0xFFFF, 0x10000, 0xFFFE00, rng.randrange(0xFFFF00)])
        # which executed writes advance WCNT on this tag (writes with MAC / every write to non-volatile memory / RC
        # writes too): nothing the reader may rely on, every experiment runs under all three (no draw from rng)
        ms["wcnt_counts"] = WCNT_RULES[ms["salt"] % 3]
        if rng.random() < 0.25:
            ms["ic"] = 0xF2
    return ms


def t2_spec(rng, kind, key):
    return {"kind": kind, "key": bytes(key), "uidseed": rng.randrange(1 << 30), "seed": rng.randrange(1 << 30)}


def spec_for(rng, kind, key, **kw):
    return t3_spec(rng, kind, key, **kw) if kind in ("lite", "lites") else t2_spec(rng, kind, key)


def w_auth(R, rng, kinds, n):
    for i in range(n):
        kind = kinds[i % len(kinds)]
        fam = family(kind)
        ptype = rng.choice(["bytes", "bytes", "bytes", "bytearray", "str"])
        pw = gen_password(rng, fam, ptype)
        key, rel = gen_model_key(rng, fam, pw)
        if rel == "same" and len(pw) > KEYLEN[fam]:
            rel = "same-longer-than-key"         # only the first bytes of the password are key material
        case = {"exp": "auth", "ms": spec_for(rng, kind, key), "pw": pw, "ptype": ptype, "rel": rel}
        evaluate(case, R)
        if i < 1:
            R.sample({"exp": "auth", "kind": kind, "password": pw, "ptype": ptype, "relation": rel})


def reference_exchange(R, ms, pw):
    """genuine responses of the authentication exchange (their lengths do not depend on the challenge)"""
    sess = Sess(ms)
    tag = sess.open()
    if tag is None:
        return None
    sess.mitm.arm({})
    res = call(lambda: tag.authenticate(pw_bytes(pw)))
    tr = sess.mitm.trace
    if res != ("ret", True):
        R.count("reference_authenticate_failed")      # the auth experiment reports it
        return None
    return [(cmd, rsp) for cmd, rsp, _ in tr]


def w_auth_tamper(R, rng, desc):
    shard = desc["shard"]
    for kind in ("lite", "lites", "ulc", rng.choice(NTAGS + ULEV1)):
        fam = family(kind)
        for s in range(desc["stripes"]):
            pw = gen_password(rng, fam, "bytes", rng.choice([0, KEYLEN[fam], 32]))
            ms = spec_for(rng, kind, derive(fam, pw))
            ref = reference_exchange(R, ms, pw)
            if ref is None:
                continue
            R.max("auth_exchange_responses/" + kind, len(ref))
            pos = [(i, b) for i, (_c, r) in enumerate(ref) if r is not None for b in range(len(r) * 8)]
            R.max("auth_exchange_bits/" + kind, len(pos))
            for j, (i, b) in enumerate(pos):
                if (j + shard + s) % 16 and fam not in ("ntag21x", "ulev1"):
                    continue
                evaluate({"exp": "auth-tamper", "ms": ms, "pw": pw, "tamper": {"at": i, "bit": b}, "mode": "bit"}, R)
        if kind == "lites":
            # two modifications: a WCNT bit is flipped (the tag then refuses the write of STATE with MAC_A) and the
            # error status of that write is turned into success; only the MAC protected read of STATE tells
            for _ in range(max(2, desc["authT_rand"] // 4)):
                pw = gen_password(rng, fam, "bytes", rng.choice([0, 16, 32]))
                ms = spec_for(rng, kind, derive(fam, pw))
                ok_status = bytes([0x0C, 0x09]) + ms["idm"] + b"\x00\x00"
                evaluate({"exp": "auth-tamper", "ms": ms, "pw": pw, "mode": "forged-write-status",
                          "tamper": {"at": 2, "bit": 13 * 8 + rng.randrange(24),
                                     "also": {"at": 3, "replace": ok_status}}}, R)
        # random modifications of one response, replay of the deciding response of an earlier session
        for _ in range(desc["authT_rand"] if fam not in ("ntag21x", "ulev1") else desc["authT_ntag"]):
            pw = gen_password(rng, fam, "bytes", rng.choice([0, KEYLEN[fam], 17]))
            ms = spec_for(rng, kind, derive(fam, pw))
            ref = reference_exchange(R, ms, pw)
            if ref is None:
                continue
            i = rng.randrange(len(ref))
            cmd, rsp = ref[i]
            c = rng.randrange(4)
            if c == 0:
                off = rng.randrange(len(rsp))
                n = rng.randrange(1, min(16, len(rsp) - off) + 1)
                mask = bytes(rng.randrange(1, 256) if rng.random() < 0.7 else 0 for _ in range(n))
                case = {"exp": "auth-tamper", "ms": ms, "pw": pw, "tamper": {"at": i, "xor": [off, mask]}, "mode": "random"}
            elif c == 1:
                # the answer recorded in the reference session (same key, other challenge) is played again
                case = {"exp": "auth-tamper", "ms": ms, "pw": pw, "tamper": {"at": i, "replace": rsp}, "mode": "replay"}
            elif c == 2:
                # ... against a tag that holds another key: the attacker owns a recording of the genuine tag
                if fam in ("ntag21x", "ulev1"):
                    continue        # plain-text PWD/PACK: a recorded PACK cannot be told from a fresh one; not judged
                other = dict(ms, key=flip_bit(ms["key"], rng.randrange(KEYLEN[fam]) * 8 + rng.randrange(7)))
                case = {"exp": "auth-tamper", "ms": other, "pw": pw, "tamper": {"at": i, "replace": rsp}, "mode": "replay"}
            else:
                # the whole covered field replaced by random bytes
                role = role_of(kind, cmd)
                offs = [o for o in range(len(rsp)) if part_of(kind, cmd, rsp, o) in COVERED]
                if not offs:
                    continue
                lo = rng.choice(offs)
                hi = min(max(offs) + 1, lo + rng.choice([1, 2, 8, 16]))
                new = bytearray(rsp)
                new[lo:hi] = rng.randbytes(hi - lo)
                case = {"exp": "auth-tamper", "ms": ms, "pw": pw, "tamper": {"at": i, "replace": bytes(new)},
                        "mode": "random", "role": role}
            evaluate(case, R)


def other_key(rng, fam, d):
    """a key that is not the one derived from the password (also not modulo DES parity)"""
    n = KEYLEN[fam]
    c = rng.randrange(3)
    if c == 0 and d != FACTORY[fam]:
        return FACTORY[fam], "factory"
    if c == 1:
        des = fam in ("lite", "lites", "ulc")
        return flip_bit(d, rng.randrange(n) * 8 + rng.randrange(7) if des else rng.randrange(n * 8)), "one-bit"
    while True:
        k = rng.randbytes(n)
        if canon(fam, k) != canon(fam, d):
            return k, "random"


def w_auth_reblock(R, rng, desc):
    """FeliCa Lite / Lite-S: every Read response of the authentication exchange delivered as a well-formed
    response with another number of blocks (a counterfeit tag / a man in the middle that cuts or pads and repairs
    the length and count octets), against a tag that holds the key and against tags that hold another key"""
    shard, j = desc["shard"], 0
    for kind in ("lite", "lites") * desc["stripes"]:
        for held in (False, True):
            pw = gen_password(rng, kind, "bytes", rng.choice([0, 16, 16, 24]))
            d = derive(kind, pw)
            key, rel = (d, "same") if held else other_key(rng, kind, d)
            ms = t3_spec(rng, kind, key)
            # the genuine exchange of a tag that holds the key gives the positions and sizes of the read responses;
            # against another key the exchange ends after the first read, later positions are then not reached
            ref = reference_exchange(R, dict(ms, key=d), pw)
            if ref is None:
                continue
            for at, (cmd, rsp) in enumerate(ref):
                g = t3_blocks(rsp)
                if g is None or t3_parse(cmd)[0] != 0x06:
                    continue
                if not held and role_of(kind, cmd) != "id-read":
                    continue
                for seq in reblock_variants(len(g[1])):
                    j += 1
                    # (the empty response with both count octets in every shard, the others with one of them)
                    for nb in (("adjust", "keep") if not seq else (("adjust", "keep")[(j + shard) % 2],)):
                        act = {"at": at, "reblock": seq, "nb": nb, "fill": rng.randbytes(16)}
                        evaluate({"exp": "auth-tamper", "ms": ms, "pw": pw, "tamper": act, "mode": "reblock",
                                  "rel": rel}, R)


def w_auth_resize(R, rng, desc):
    """NTAG21x / Ultralight EV1 PWD_AUTH and the two Ultralight C AUTHENTICATE responses cut short or made longer"""
    for i in range(4 * desc["stripes"]):
        kind = (NTAGS[(desc["shard"] + i // 4) % 5], ULEV1[(desc["shard"] + i // 4) % 2], "ulc", "ulc")[i % 4]
        fam = family(kind)
        for held in (True, False, False):
            pw = gen_password(rng, fam, "bytes", rng.choice([0, KEYLEN[fam], KEYLEN[fam] + 3]))
            d = derive(fam, pw)
            if held:
                key, rel = d, "same"
            elif fam == "ulc":
                key, rel = other_key(rng, fam, d)
            else:
                # the PWD is right (the tag answers with its PACK), the PACK is not: one byte of it or both
                c = rng.randrange(3)
                pack = bytes([d[4] ^ (rng.randrange(1, 256) if c != 0 else 0), d[5] ^ (rng.randrange(1, 256) if c != 1 else 0)])
                key, rel = d[:4] + pack, "pwd-same-pack-%s" % ("second-byte-differs", "first-byte-differs", "differs")[c]
            ms = t2_spec(rng, kind, key)
            sess = Sess(ms)
            tag = sess.open()
            if tag is None:
                continue
            sess.mitm.arm({})
            call(lambda: tag.authenticate(pw_bytes(pw)))
            ref = [(c_, r_) for c_, r_, _ in sess.mitm.trace]
            for at, (cmd, rsp) in enumerate(ref):
                if rsp is None or role_of(kind, cmd) not in ("pwd-auth", "auth1", "auth2"):
                    continue
                n = len(rsp)
                for size in sorted(set([0, 1, n - 1, n + 1, n + 8, 2 * n]) - {n, -1}):
                    if fam != "ulc" and not held and size > n and rsp[:1] in (b"\x00", b"\x04") and n == 1:
                        continue          # a NAK made longer would be a forged PACK (plain text scheme): not judged
                    act = {"at": at, "resize": size, "fill": rng.randbytes(8)}
                    evaluate({"exp": "auth-tamper", "ms": ms, "pw": pw, "tamper": act, "mode": "resize", "rel": rel}, R)


READABLE_LITE = list(range(0, 15)) + [0x80, 0x82, 0x83, 0x84, 0x85, 0x86, 0x88]
READABLE_LITES = READABLE_LITE + [0x90, 0x92, 0xA0]


def gen_blocks(rng, kind, n):
    pool = READABLE_LITE if kind == "lite" else READABLE_LITES
    if rng.random() < 0.6:
        pool = list(range(0, 14))
    return [rng.choice(pool) for _ in range(n)]


def w_read_mac(R, rng, desc):
    it = 0
    for nblocks, count in zip((1, 2, 3), desc["readmac"]):
        for _ in range(count):
            kind = ("lite", "lites")[(it + desc["shard"]) % 2]
            it += 1
            pw = gen_password(rng, kind, "bytes", rng.choice([0, 16, 16, 40]))
            ms = t3_spec(rng, kind, derive(kind, pw))
            blocks = gen_blocks(rng, kind, nblocks)
            nbits = (13 + 16 * (nblocks + 1)) * 8
            case = {"exp": "read-mac", "ms": ms, "pw": pw, "blocks": blocks, "mode": "bit"}
            acts = [{"bit": b} for b in range(nbits)]
            # the same response as a well-formed frame with another number of blocks (count octet adjusted or not)
            acts += [{"reblock": seq, "nb": nb, "fill": rng.randbytes(16)}
                     for seq in reblock_variants(nblocks + 1) for nb in ("adjust", "keep")]
            readmac_session(case, R, acts)
            R.count("mac_full_bit_enumerations")
            if it <= 1:
                R.sample({"exp": "read-mac", "kind": kind, "blocks": blocks, "single_bit_positions": nbits})
    # random multi-byte modifications, block swaps, replays of an earlier session, same-session splices
    for _ in range(desc["readmac_rand"]):
        kind = rng.choice(("lite", "lites"))
        pw = gen_password(rng, kind, "bytes", rng.choice([0, 16, 33]))
        ms = t3_spec(rng, kind, derive(kind, pw))
        nblocks = rng.choice([1, 2, 3])
        blocks = gen_blocks(rng, kind, nblocks)
        base = {"exp": "read-mac", "ms": ms, "pw": pw, "blocks": blocks}
        end = 13 + 16 * nblocks + 8             # data + MAC
        c = rng.randrange(5)
        if c == 0:
            off = rng.randrange(13, end)
            n = rng.randrange(1, min(24, end - off) + 1)
            mask = bytes(rng.randrange(256) for _ in range(n))
            readmac_session(dict(base, mode="random"), R, [{"xor": [off, mask]}])
        elif c == 1:
            lo = rng.randrange(13, end)
            readmac_session(dict(base, mode="random"), R, [{"xor": [lo, rng.randbytes(end - lo)]}])
        elif c == 2 and nblocks >= 2:
            a, b = rng.sample(range(nblocks), 2)
            readmac_session(dict(base, mode="swap"), R, [{"swap": [13 + 16 * a, 13 + 16 * b, 16]}])
        elif c == 3:
            # the genuine answer of an earlier session (same tag, same key, same blocks, other challenge)
            s0 = Sess(ms)
            tag = setup_authenticated(base, R, s0)
            if tag is None:
                continue
            s0.mitm.arm({})
            call(lambda: tag.read_with_mac(*blocks))
            old = s0.mitm.trace[0][1] if s0.mitm.trace else None
            if old is None or len(old) < end:
                continue
            readmac_session(dict(base, mode="replay"), R, [{"replace": old}])
        else:
            # same session, genuine answer for other blocks: observation only
            sess = Sess(ms, R)
            tag = setup_authenticated(base, R, sess)
            if tag is None:
                continue
            others = gen_blocks(rng, kind, nblocks)
            sess.mitm.arm({})
            call(lambda: tag.read_with_mac(*others))
            old = sess.mitm.trace[0][1] if sess.mitm.trace else None
            if old is None or len(old) < end or expected_blocks(sess.model, others) == expected_blocks(sess.model, blocks):
                continue
            want = expected_blocks(sess.model, blocks)
            sess.mitm.arm({0: {"replace": old}})
            res = call(lambda: tag.read_with_mac(*blocks))
            judge_read(R, sess, dict(base, mode="splice", tamper={"replace": old}), sess.mitm.trace, res, want, blocks)


def w_ndef(R, rng, desc):
    shard = desc["shard"]
    for s in range(desc["ndef"]):
        kind = ("lite", "lites")[(s + shard) % 2]
        pw = gen_password(rng, kind, "bytes", rng.choice([0, 16, 20]))
        ln = rng.choice([5, 16, 33, 48, 49, 96, 150, 208])
        ms = t3_spec(rng, kind, derive(kind, pw), msg=rng.randbytes(ln), ndef=True)
        base = {"exp": "ndef-read", "ms": ms, "pw": pw}
        tr = x_ndef_read(dict(base, tamper=None), R)
        if not tr:
            continue
        if not LAST.get("ndef_ok"):
            # the genuine read of this tag was not accepted: rejections of modified reads would prove nothing
            R.count("ndef_tamper_skipped_without_baseline/" + kind)
            continue
        R.max("ndef_read_commands", len(tr))
        pos = [(i, b) for i, t in enumerate(tr) if t[1] is not None for b in range(len(t[1]) * 8)]
        R.max("ndef_read_response_bits", len(pos))
        for j, (i, b) in enumerate(pos):
            if (j + shard + s) % 16 == 0:
                evaluate(dict(base, tamper={"at": i, "bit": b}, mode="bit"), R)
        macreads = [(i, t3_blocks(t[1])) for i, t in enumerate(tr)
                    if t[1] is not None and role_of(kind, t[0]) == "mac-read" and t3_blocks(t[1]) is not None]
        for i, g in macreads[:1] + macreads[-1:]:
            n = len(g[1])
            for seq in ([], list(range(n - 1)), list(range(1, n)), list(range(n)) + [99], list(range(n - 2)) + [n - 1]):
                if seq != list(range(n)):
                    evaluate(dict(base, tamper={"at": i, "reblock": seq, "nb": rng.choice(["adjust", "keep"]),
                                                "fill": rng.randbytes(16)}, mode="reblock"), R)
        for _ in range(desc["ndef_rand"]):
            i = rng.randrange(len(tr))
            rsp = tr[i][1]
            if rsp is None:
                continue
            off = rng.randrange(min(13, len(rsp) - 1), len(rsp))
            n = rng.randrange(1, min(20, len(rsp) - off) + 1)
            evaluate(dict(base, tamper={"at": i, "xor": [off, rng.randbytes(n)]}, mode="random"), R)
    # plain sessions with many message lengths (untampered): what is returned is what the model holds
    for _ in range(4 * desc["ndef"]):
        kind = rng.choice(("lite", "lites"))
        pw = gen_password(rng, kind, "bytes", rng.choice([0, 16]))
        ms = t3_spec(rng, kind, derive(kind, pw), ndef=True)
        x_ndef_read({"exp": "ndef-read", "ms": ms, "pw": pw, "tamper": None}, R)


def w_write_mac(R, rng, desc):
    shard = desc["shard"]
    for i in range(desc["wmac"]):
        pw = gen_password(rng, "lites", "bytes", rng.choice([0, 16, 16, 64]))
        ms = t3_spec(rng, "lites", derive("lites", pw))
        if rng.random() < 0.5:
            # a protected tag: user blocks need external authentication and MAC_A
            ms["mc"] = bytes([0xFF, 0xFF, 0x00, 0x01, 0x07, 0x01, 0x00, 0x00, 0xFF, 0x3F, 0xFF, 0x3F, 0, 0, 0, 0])
        case = {"exp": "write-mac", "ms": ms, "pw": pw, "block": rng.randrange(0, 14), "data": rng.randbytes(16),
                "tamper": None}
        if i % 3 == 2:
            # several writes with MAC in one session (same and other blocks); WCNT low byte about to carry
            ms["wcnt"] = rng.choice([ms["wcnt"], 0xFE, 0xFFFE, 0x01FFFD])
            case["pre"] = [[rng.choice([case["block"], rng.randrange(0, 14)]), rng.randbytes(16)]
                           for _ in range(rng.randrange(1, 4))]
        LAST["wmac_ok"] = False
        tr = x_write_mac(case, R)
        if not tr or i >= desc["wmac_stripes"]:
            continue
        if not LAST.get("wmac_ok"):
            # the genuine write was not accepted: rejections of modified exchanges would prove nothing
            R.count("maca_tamper_skipped_without_baseline")
            continue
        pos = [(k, b) for k, t in enumerate(tr) if t[1] is not None for b in range(len(t[1]) * 8)]
        R.max("write_mac_response_bits", len(pos))
        for j, (k, b) in enumerate(pos):
            if (j + shard + i) % 4 == 0:
                evaluate(dict(case, tamper={"at": k, "bit": b}), R)


def w_protect(R, rng, desc):
    shard = desc["shard"]
    for rep in range(desc["protect"]):
        kinds = ["lite", "lites", NTAGS[(shard + rep) % 5], NTAGS[(shard + rep + 2) % 5], ULEV1[(shard + rep) % 2], "ulc"]
        for kind in kinds:
            fam = family(kind)
            n = KEYLEN[fam]
            for length in [0, 1, n - 1, n, n + 1, 32, 64]:
                for ptype in ("bytes", "bytearray", "str"):
                    pw = gen_password(rng, fam, ptype, length)
                    key = derive(fam, pw)
                    others = []
                    if key is not None:
                        b = pw_bytes(pw)
                        base = b if len(b) >= n else key          # empty password: the factory key spelled out
                        des = fam in ("lite", "lites", "ulc")
                        bit = rng.randrange(n) * 8 + rng.randrange(7) if des else rng.randrange(n * 8)
                        others.append([flip_bit(base, bit), "one-bit"])
                        others.append([rng.randbytes(max(n, len(b))), "random"])
                        if len(b) > 0:
                            others.append([b"", "factory"])
                        others.append([base[:n] + rng.randbytes(rng.randrange(1, 9)), "same-prefix"])
                        if des:
                            others.append([bytes(x ^ rng.randrange(2) for x in base[:n]) + base[n:], "parity-equivalent"])
                    ms = spec_for(rng, kind, FACTORY[fam], msg=rng.randbytes(rng.choice([0, 7, 40])), ndef=True) \
                        if kind in ("lite", "lites") else spec_for(rng, kind, FACTORY[fam])
                    case = {"exp": "protect", "ms": ms, "pw": pw, "ptype": ptype, "pf": rng.choice([0, 0, 2, 4]),
                            "others": others}
                    evaluate(case, R)


LOCKED_MC = {  # name: (kind, MC block, authenticate with the held key first)
    "lite-locked": ("lite", bytes([0xFF, 0xFF, 0x00, 0x01, 0x07]) + bytes(11), False),
    "lites-locked-keychange-off": ("lites", bytes([0xFF, 0xFF, 0x00, 0x01, 0x07, 0x00]) + bytes(10), False),
    "lites-locked-keychange-on": ("lites", bytes([0xFF, 0xFF, 0x00, 0x01, 0x07, 0x01]) + bytes(10), False),
    "lites-locked-keychange-on-authenticated": ("lites", bytes([0xFF, 0xFF, 0x00, 0x01, 0x07, 0x01]) + bytes(10), True),
}


def protect_others(rng, fam, pw, key, prior_key=None):
    n = KEYLEN[fam]
    b = pw_bytes(pw)
    base = b if len(b) >= n else key          # empty password: the factory key spelled out
    des = fam in ("lite", "lites", "ulc")
    others = []
    if prior_key is not None and canon(fam, prior_key) != canon(fam, key):
        others.append([bytes(prior_key), "previous-key"])
    bit = rng.randrange(n) * 8 + rng.randrange(7) if des else rng.randrange(n * 8)
    others.append([flip_bit(base, bit), "one-bit"])
    others.append([rng.randbytes(max(n, len(b))), "random"])
    if len(b) > 0:
        others.append([b"", "factory"])
    return others


def w_protect_prior(R, rng, desc):
    """protect() of tags that do not hold the factory key: personalised but never locked ('issuer': the documented
    empty password in every accepted form brings the factory key back, a non-empty one sets a new key), and FeliCa
    tags whose system blocks are locked ('locked': protect() may refuse, a reported success is judged)"""
    shard = desc["shard"]
    for rep in range(desc["protect"]):
        kinds = ["lite", "lites", "lites", NTAGS[(shard + rep) % 5], ULEV1[(shard + rep) % 2], "ulc"]
        for kind in kinds:
            fam = family(kind)
            n = KEYLEN[fam]
            todo = [(0, "bytes"), (0, "bytearray"), (0, "str"), (rng.choice([n, n + 1, 32]), rng.choice(["bytes", "bytearray"]))]
            for length, ptype in todo:
                pw = gen_password(rng, fam, ptype, length)
                key = derive(fam, pw)
                while True:
                    prior_key = rng.randbytes(n)
                    if canon(fam, prior_key) not in (canon(fam, key), canon(fam, FACTORY[fam])):
                        break
                ms = spec_for(rng, kind, prior_key, msg=rng.randbytes(rng.choice([0, 7, 40])), ndef=True) \
                    if kind in ("lite", "lites") else spec_for(rng, kind, prior_key)
                evaluate({"exp": "protect", "ms": ms, "pw": pw, "ptype": ptype, "pf": rng.choice([0, 0, 2, 4]),
                          "prior": "issuer", "others": protect_others(rng, fam, pw, key, prior_key)}, R)
        for name, (kind, mc, pre_auth) in sorted(LOCKED_MC.items()):
            for length, ptype in ((0, ("bytes", "bytearray", "str")[(shard + rep) % 3]), (16, "bytes")):
                pw = gen_password(rng, kind, ptype, length)
                key = derive(kind, pw)
                while True:
                    prior_key = rng.randbytes(16)
                    if canon(kind, prior_key) not in (canon(kind, key), canon(kind, FACTORY[kind])):
                        break
                ms = t3_spec(rng, kind, prior_key, msg=rng.randbytes(rng.choice([0, 7, 40])), ndef=True)
                ms["mc"] = mc
                evaluate({"exp": "protect", "ms": ms, "pw": pw, "ptype": ptype, "pf": rng.choice([0, 2]),
                          "prior": "locked", "pre_auth": pre_auth, "locked": name,
                          "others": protect_others(rng, kind, pw, key, prior_key)}, R)


# ---- session order -------------------------------------------------------------------------------------
# N = tag.ndef, A+ / A- = authenticate(right / wrong password), W = write, R = read_with_mac, C = has_changed;
# a trailing * = the man in the middle is active during the step
ORDER_PATTERNS = [
    "N* A+ N",                    # falsified before authentication, attacker gone: the genuine message (or nothing)
    "N* A+ N*",                   # ... attacker stays: nothing
    "N* A+ N N*",
    "N* A- A+ N R",               # a failed attempt in between
    "N* A+ N A- N A+ N*",         # authenticated, not authenticated, authenticated again
    "N A+ N",                     # nothing modified at all: cached or read again, both fine
    "A+ N N* W N",                # first access after authentication (what single-step cases do), cache, write
    "A+ N* N C* N",               # modification noticed -> no object; forced re-read under attack
    "N* A+ R R* N",
    "N* W A+ N R*",               # the falsified object is replaced by a write before authentication
    "N* A+ W N* A+ N",
    "N* A+ A+ N",
    "A+ N W* N",                  # (modification of the attribute block) the write is refused, nothing was written
]
ORDER_PATTERNS_T2 = ["N* A+ N", "A+ N* A+ N", "N A+ N*"]
# Lite-S: several writes with MAC through one tag object (the STATE write of authenticate is one) with things in
# between that move the tag's WCNT where the tag object does not see it.  M = write_with_mac, P = write_without_mac,
# prefix O: = through a second tag object of the same activated tag, suffix ! = the tag's answer to the write with MAC
# (M) / to the STATE write (A+) is lost.  Every pattern runs under each WCNT counting rule of the tag model.
ORDER_PATTERNS_WCNT = [
    "A+ P A+ N",                  # a plain write between two authentications
    "A+ A+ R",                    # nothing but the new challenge (RC write) in between
    "A+ M M A+ M R",              # own writes with MAC only
    "A+ M! A+ M",                 # answer to a write with MAC lost: executed by the tag, failed for the reader
    "A+! A+ N",                   # answer to the STATE write of the first authentication lost
    "A+ O:A+ A+ M",               # another tag object authenticates (its STATE write moves WCNT, its RC ends the session)
    "A+ M O:A+ O:M O:P A+ M R",
    "N A+ W A+ N",                # an NDEF write (several writes with MAC) between
    "A+ P A- A+ P M",
    "O:A+ O:M A+ O:M O:A+ M A+",  # alternating objects: the writes with a void session key are refused by the tag
]


def order_message(rng):
    import ndef
    if rng.random() < 0.5:
        text = "".join(chr(rng.randrange(0x20, 0x7F)) for _ in range(rng.choice([1, 9, 20, 41, 90, 180])))
        return b"".join(ndef.message_encoder([ndef.TextRecord(text), ndef.UriRecord("http://t.example/%d" % rng.randrange(99))]
                                             if len(text) < 150 else [ndef.TextRecord(text)]))
    return rng.randbytes(rng.choice([5, 16, 17, 33, 48, 49, 96, 150, 208]))


def order_rule(rng, msg, attr=False):
    """a modification that changes the message an unprotected NDEF read returns (attr: one of the attribute block)"""
    ln = len(msg)
    nb = (ln + 15) // 16
    c = rng.randrange(4)
    if attr and c >= 2:
        return {"rule": "flip", "block": 0, "bit": rng.randrange(128)}
    if c == 0 or ln == 0 or attr:
        cand = [x for x in (0, ln - 1, ln + 1, ln // 2, 208, rng.randrange(209)) if 0 <= x <= 208 and x != ln]
        return {"rule": "attr-ln", "ln": rng.choice(cand)}
    block = rng.randrange(1, nb + 1)
    used = 16 if block < nb else ln - 16 * (nb - 1)
    if c == 1:
        data = bytearray(rng.randbytes(16))
        data[0] = msg[16 * (block - 1)] ^ rng.randrange(1, 256)
        return {"rule": "subst", "block": block, "data": bytes(data)}
    return {"rule": "flip", "block": block, "bit": rng.randrange(used * 8)}


def order_steps(rng, pattern, kind, pw, msg, rule):
    fam = family(kind)
    steps = []
    for tok in pattern.split():
        other = tok.startswith("O:")
        tok = tok[2:] if other else tok
        lose = tok.endswith("!")
        tok = tok.rstrip("!")
        t = 1 if tok.endswith("*") else 0
        op = tok.rstrip("*")
        if op in ("M", "P"):
            free = list(range((len(msg) + 15) // 16 + 1, 14)) or [13]
            st = {"op": "wmac" if op == "M" else "wplain", "block": rng.choice(free), "data": rng.randbytes(16)}
        elif op == "N":
            st = {"op": "ndef"}
        elif op in ("A+", "A-"):
            right = op == "A+"
            st = {"op": "auth", "pw": pw if right else other_key(rng, fam, derive(fam, pw))[0], "right": right}
        elif op == "W":
            st = {"op": "write", "data": order_message(rng)[:rng.choice([208, 208, 40])]}
        elif op == "R":
            blocks = [rng.randrange(0, 14) for _ in range(rng.choice([1, 2, 3]))]
            if rule.get("block") is not None and (t or rng.random() < 0.5):
                blocks[rng.randrange(len(blocks))] = rule["block"]
            elif rule["rule"] == "attr-ln" and t:
                blocks[0] = 0
            st = {"op": "rmac", "blocks": blocks}
        else:
            st = {"op": "changed"}
        if t:
            st["t"] = 1
        if other:
            st["o"] = 1
        if lose:
            st["lose"] = "state-write" if st["op"] == "auth" else "mac-write"
        steps.append(st)
    return steps


def w_order(R, rng, desc):
    shard = desc["shard"]
    n = 0
    for rep in range(desc["order"]):
        for k, pattern in enumerate(ORDER_PATTERNS):
            # both FeliCa kinds for the sequences that start with a read before authentication, else alternating
            kinds = ("lite", "lites") if k < 2 else (("lite", "lites")[(k + shard + rep) % 2],)
            for kind in kinds:
                pw = gen_password(rng, kind, "bytes", rng.choice([0, 16, 16, 24]))
                msg = order_message(rng)
                ms = t3_spec(rng, kind, derive(kind, pw), msg=msg, ndef=True)
                rule = order_rule(rng, msg, attr="W*" in pattern)
                case = {"exp": "order", "ms": ms, "pw": pw, "rule": rule,
                        "steps": order_steps(rng, pattern, kind, pw, msg, rule)}
                evaluate(case, R)
                n += 1
                if n == 1:
                    R.sample({"exp": "order", "kind": kind, "sequence": pattern, "rule": rule})
    for _ in range(desc["order_rand"]):
        kind = rng.choice(("lite", "lites"))
        toks = []
        for _i in range(rng.randrange(3, 8)):
            op = rng.choice(["N", "N", "N", "A+", "A+", "A-", "W", "R", "C"])
            toks.append(op + ("*" if op[0] != "A" and rng.random() < 0.4 else ""))
        if "A+" not in toks:
            toks.insert(rng.randrange(len(toks)), "A+")
        pw = gen_password(rng, kind, "bytes", rng.choice([0, 16, 16, 24]))
        msg = order_message(rng)
        ms = t3_spec(rng, kind, derive(kind, pw), msg=msg, ndef=True)
        rule = order_rule(rng, msg, attr="W*" in toks and rng.random() < 0.5)
        evaluate({"exp": "order", "ms": ms, "pw": pw, "rule": rule,
                  "steps": order_steps(rng, " ".join(toks), kind, pw, msg, rule)}, R)
    # Type 2 families (no message authentication for reads): what happens to the cached object is recorded only
    for rep in range(desc["order"]):
        kind = (NTAGS[(shard + rep) % 5], ULEV1[(shard + rep) % 2], "ulc")[(shard + rep) % 3]
        fam = family(kind)
        for pattern in ORDER_PATTERNS_T2:
            pw = gen_password(rng, fam, "bytes", rng.choice([0, KEYLEN[fam], KEYLEN[fam] + 2]))
            msg = order_message(rng)[:rng.choice([12, 30, 39])]
            ms = dict(t2_spec(rng, kind, derive(fam, pw)), msg=msg)
            rule = {"rule": "t2-flip", "offset": 18 + rng.randrange(len(msg)), "bit": rng.randrange(8)}
            evaluate({"exp": "order", "ms": ms, "pw": pw, "rule": rule,
                      "steps": order_steps(rng, pattern, kind, pw, msg, rule)}, R)
    # Lite-S: WCNT moves between the writes with MAC of one tag object (fixed sequences x counting rule, random ones)
    for rep in range(desc["order"]):
        for k, pattern in enumerate(ORDER_PATTERNS_WCNT):
            order_wcnt_session(R, rng, pattern, WCNT_RULES[(k + shard + rep) % 3])
    for _ in range(desc["order_rand"]):
        toks = ["A+"] if rng.random() < 0.7 else []
        for _i in range(rng.randrange(3, 8)):
            op = rng.choice(["A+", "A+", "A-", "M", "M", "P", "P", "N", "W", "R", "O:A+", "O:M", "O:P"])
            if op in ("M", "A+") and rng.random() < 0.15:
                op += "!"
            toks.append(op)
        toks.append("A+")
        order_wcnt_session(R, rng, " ".join(toks), rng.choice(WCNT_RULES))


def order_wcnt_session(R, rng, pattern, wcnt_rule):
    pw = gen_password(rng, "lites", "bytes", rng.choice([0, 16, 16, 24]))
    msg = order_message(rng)[:rng.choice([150, 150, 40, 208])]
    ms = t3_spec(rng, "lites", derive("lites", pw), msg=msg, ndef=True)
    ms["wcnt_counts"] = wcnt_rule
    if rng.random() < 0.3:
        ms["wcnt"] = rng.choice([0xFD, 0xFFFC, 0x01FFFB])          # a byte of WCNT carries during the session
    rule = order_rule(rng, msg)
    R.count("order_wcnt_sessions/" + wcnt_rule)
    evaluate({"exp": "order", "ms": ms, "pw": pw, "rule": rule,
              "steps": order_steps(rng, pattern, "lites", pw, msg, rule)}, R)


# ---- read_with_mac histories -------------------------------------------------------------------------------
# A+ / A- authenticate(right / wrong password); A~ right password, MAC of the ID read modified (fails on the way);
# R read_with_mac of selection S, Rt of selection T; suffix :d one data bit, :D several data bytes (MAC bytes as sent),
# :m one MAC bit, :x data and MAC; <k whole response recorded in step k delivered, <dk / <mk only its data / its MAC;
# P plain write to a block of S (the recorded responses become stale)
HIST_PATTERNS = [
    "A+ R R:d R:m R:x R R:D P R R<1 R<d1 R<m1",          # k-th read of one selection modified, stale data grafted
    "A+ R R R R:D Rt Rt:d R:m R R:d",                       # modification only at the 4th / 5th read
    "A+ R Rt P A+ R R<1 Rt<2 R<2 Rt R<5",                   # recordings of the earlier session, same and other selection
    "A+ R P A- R R<1 A+ R R<1",                             # stale session key: failed authenticate(), then the recording
    "A+ R P A~ R<1 R A+ R R<1",                             # ... authentication that fails because of a modification
    "R A- R A+ R R:d A+ R:m R R:D",                         # no session key yet; first read of a session modified
]


def hist_selection(rng, kind, n=None):
    n = n or rng.choice([1, 1, 2, 2, 3])
    if rng.random() < 0.15:
        b = rng.randrange(1, 14)
        return [b] * n                                        # the same block several times
    return [rng.randrange(1, 14) for _ in range(n)]


def hist_steps(rng, pattern, kind, pw):
    S = hist_selection(rng, kind)
    while True:
        T = hist_selection(rng, kind)
        if T != S:
            break
    steps = []
    for tok in pattern.split():
        if tok[0] == "A":
            if tok == "A-":
                steps.append({"op": "auth", "pw": other_key(rng, kind, derive(kind, pw))[0], "right": False})
            else:
                st = {"op": "auth", "pw": pw, "right": True}
                if tok == "A~":
                    st["act"] = {"at": 1, "bit": 29 * 8 + rng.randrange(64)}
                steps.append(st)
            continue
        if tok == "P":
            steps.append({"op": "wplain", "block": rng.choice(S), "data": rng.randbytes(16)})
            continue
        sel = T if tok.startswith("Rt") else S
        rest = tok[2:] if tok.startswith("Rt") else tok[1:]
        st = {"op": "rmac", "blocks": sel, "act": None}
        nd = 16 * len(sel)
        if rest.startswith("<"):
            graft = {"d": "data", "m": "mac"}.get(rest[1])
            st["act"] = {"from": int(rest[2:] if graft else rest[1:])}
            if graft:
                st["act"]["graft"] = graft
        elif rest == ":d":
            st["act"] = {"bit": 13 * 8 + rng.randrange(nd * 8)}
        elif rest == ":m":
            st["act"] = {"bit": (13 + nd) * 8 + rng.randrange(64)}
        elif rest == ":D":
            n = rng.randrange(1, min(9, nd) + 1)
            st["act"] = {"xor": [13 + rng.randrange(nd - n + 1), bytes(rng.randrange(1, 256) for _ in range(n))]}
        elif rest == ":x":
            st["act"] = {"xor": [13 + nd - 2, bytes(rng.randrange(1, 256) for _ in range(4))]}
        steps.append(st)
    return steps


def w_hist(R, rng, desc):
    shard = desc["shard"]
    for rep in range(desc.get("hist", 1)):
        for k, pattern in enumerate(HIST_PATTERNS):
            # the stale-session-key sequences on both kinds, the others alternating
            kinds = ("lite", "lites") if k in (3,) else (("lite", "lites")[(k + shard + rep) % 2],)
            for kind in kinds:
                pw = gen_password(rng, kind, "bytes", rng.choice([0, 16, 16, 24]))
                ms = t3_spec(rng, kind, derive(kind, pw), msg=rng.randbytes(rng.choice([0, 20, 60])), ndef=True)
                evaluate({"exp": "hist", "ms": ms, "pw": pw, "steps": hist_steps(rng, pattern, kind, pw)}, R)
    for _ in range(desc.get("hist_rand", 2)):
        kind = rng.choice(("lite", "lites"))
        toks, nreads = ["A+"], []
        for i in range(1, rng.randrange(5, 12)):
            c = rng.random()
            if c < 0.12:
                toks.append(rng.choice(["A+", "A+", "A-", "A~"]))
            elif c < 0.2:
                toks.append("P")
            else:
                sel = rng.choice(["R", "R", "Rt"])
                mod = rng.choice(["", "", ":d", ":D", ":m", ":x", "<"])
                if mod == "<":
                    mod = ("<%s%d" % (rng.choice(["", "", "d", "m"]), rng.choice(nreads))) if nreads else ""
                toks.append(sel + mod)
                nreads.append(i)
        pw = gen_password(rng, kind, "bytes", rng.choice([0, 16, 16, 24]))
        ms = t3_spec(rng, kind, derive(kind, pw), msg=rng.randbytes(rng.choice([0, 20, 60])), ndef=True)
        evaluate({"exp": "hist", "ms": ms, "pw": pw, "steps": hist_steps(rng, " ".join(toks), kind, pw)}, R)


# ---- block selections at the edges -----------------------------------------------------------------------
def edge_selections(rng, kind):
    a, b = rng.randrange(1, 14), rng.randrange(1, 14)
    sels = [[], [a, b, a, b], [a, a], [b, b, b], [0x81], [a, 0x81], [0x87], [0x91], [a, 0x91], [0x82], [0x80], [0x88],
            [0, 0x82, 14], [0x83, 0x84], [0x85, 0x86], [0xFF], [0x0F]]
    if kind == "lites":
        sels += [[0x90], [0x92], [a, 0x90, 0x92], [0xA0]]
    return sels


def w_read_edges(R, rng, desc):
    """read_with_mac with no block at all, with more blocks than one command carries, with the same block several
    times, with system blocks and with MAC / MAC_A / CK in the list: genuine and with a data bit / a MAC bit modified"""
    kind = ("lite", "lites")[desc["shard"] % 2]
    for rep in range(desc.get("edges", 1)):
        if rep:
            kind = rng.choice(("lite", "lites"))
        for sel in edge_selections(rng, kind):
            pw = gen_password(rng, kind, "bytes", rng.choice([0, 16]))
            ms = t3_spec(rng, kind, derive(kind, pw))
            nd = 16 * len(sel)
            acts = [{"bit": (13 + nd) * 8 + rng.randrange(64)}]
            if nd:
                acts.append({"bit": 13 * 8 + rng.randrange(nd * 8)})
            before = R.counters.get("mac_read_untampered_ok", 0)
            sess = readmac_session({"exp": "read-mac", "ms": ms, "pw": pw, "blocks": sel, "mode": "bit"}, R, acts,
                                   cache=False)
            cls = ("zero-blocks" if not sel else "too-many-blocks" if len(sel) > 3 else
                   "mac-or-key-block-in-list" if set(sel) & {0x81, 0x87, 0x91} else
                   "unknown-block" if set(sel) & {0xFF, 0x0F} else
                   "repeated-block" if len(set(sel)) < len(sel) else "system-block")
            if sess.tag is not None and call(lambda: sess.tag.is_authenticated) == ("ret", True):
                R.count("mac_edge_selection_reached/" + cls)
            R.count("mac_edge_selection/%s/%s" % (cls, "data-returned" if R.counters.get("mac_read_untampered_ok", 0)
                                                  > before else "nothing-returned"))


# ---- whole transcripts -----------------------------------------------------------------------------------
def w_transcript(R, rng, desc):
    shard = desc["shard"]
    for rep in range(desc.get("transcript", 1)):
        for kind in ("lite", "lites", "ulc", (NTAGS + ULEV1)[(shard + rep) % 7]):
            fam = family(kind)
            pw = gen_password(rng, fam, "bytes", rng.choice([0, KEYLEN[fam], KEYLEN[fam] + 8]))
            ms = spec_for(rng, kind, derive(fam, pw))
            blocks = gen_blocks(rng, kind, rng.choice([1, 2, 3])) if fam in ("lite", "lites") else None
            s0 = Sess(ms)
            tag = s0.open()
            if tag is None:
                continue
            s0.mitm.arm({})
            ok = call(lambda: tag.authenticate(pw_bytes(pw)))
            if blocks is not None:
                call(lambda: tag.read_with_mac(*blocks))
            record = [r for _c, r, _o in s0.mitm.trace]
            if ok != ("ret", True) or any(r is None for r in record):
                R.count("reference_authenticate_failed")
                continue
            okey, _rel = other_key(rng, fam, derive(fam, pw))
            for victim in (dict(ms, key=okey), dict(ms)):
                if "seed" in victim:
                    victim["seed"] = victim["seed"] + 1          # (the Ultralight C model draws another RndB)
                evaluate({"exp": "transcript", "ms": victim, "pw": pw, "record": record, "blocks": blocks,
                          "mode": "replay"}, R)


def w_fresh(R, rng, desc):
    for kind in ("lite", "lites", "ulc"):
        fam = family(kind)
        pw = gen_password(rng, fam, "bytes", rng.choice([0, 16]))
        evaluate({"exp": "fresh", "ms": spec_for(rng, kind, derive(fam, pw)), "pw": pw, "n": desc.get("fresh", 3)}, R)


# ---- directed keys, passwords, challenges ----------------------------------------------------------------
def nz(rng, n):
    return bytes(rng.randrange(1, 255) for _ in range(n))


def edge_keys_des(rng):
    """16 byte keys with 00 / FF at the edges of the key halves, equal halves, all parity variants of 00.. / FF.."""
    out = [("all-00", bytes(16)), ("all-ff", b"\xFF" * 16), ("all-01", b"\x01" * 16), ("all-fe", b"\xFE" * 16)]
    k = nz(rng, 8)
    out.append(("k1-eq-k2", k + k))
    out.append(("k1-zero", bytes(8) + nz(rng, 8)))
    out.append(("k2-zero", nz(rng, 8) + bytes(8)))
    for pos in (0, 7, 8, 15):
        for v in (0x00, 0xFF):
            b = bytearray(nz(rng, 16))
            b[pos] = v
            out.append(("%02x-at-%d" % (v, pos), bytes(b)))
    out.append(("high-bits", bytes(rng.randrange(0x80, 0x100) for _ in range(16))))
    out.append(("whitespace-edges", b" " + nz(rng, 6) + b"\n" + b"\t" + nz(rng, 6) + b" "))
    return out


def edge_keys_pwd(rng):
    """PWD[4] || PACK[2] of the NTAG21x / Ultralight EV1 scheme"""
    return [("pwd-00-pack-0000", bytes(6)), ("pack-0000", nz(rng, 4) + b"\0\0"),
            ("factory-pwd-other-pack", b"\xFF\xFF\xFF\xFF" + nz(rng, 2)), ("pack-like-nak-00", nz(rng, 4) + b"\x00" + nz(rng, 1)),
            ("pack-like-nak-04", nz(rng, 4) + b"\x04" + nz(rng, 1)), ("pack-second-00", nz(rng, 4) + nz(rng, 1) + b"\0"),
            ("pack-0a0a-like-ack", nz(rng, 4) + b"\x0A\x0A"), ("pwd-00-at-edges", b"\0" + nz(rng, 2) + b"\0" + nz(rng, 2)),
            ("pwd-ff-pack-ffff", b"\xFF" * 6)]


MAC_PATTERNS = ["z-first", "z-last", "z-all", "z-head4", "z-tail4", "ff-all", "ws-first", "ws-last", "ff-last"]


def mac_pattern(rng, name):
    b = bytearray(nz(rng, 8))
    if name == "z-first":
        b[0] = 0
    elif name == "z-last":
        b[7] = 0
    elif name == "z-all":
        b = bytearray(8)
    elif name == "z-head4":
        b[0:4] = bytes(4)
    elif name == "z-tail4":
        b[4:8] = bytes(4)
    elif name == "ff-all":
        b = bytearray(b"\xFF" * 8)
    elif name == "ws-first":
        b[0] = 0x0A
    elif name == "ws-last":
        b[7] = 0x20
    elif name == "ff-last":
        b[7] = 0xFF
    return bytes(b)


def edge_byte(name):
    return 7 if name.endswith("last") or name == "z-tail4" else 0


def w_directed(R, rng, desc):
    """boundary values on purpose instead of by luck: keys / passwords with 00 and FF at the edges of the key halves,
    K1 = K2, PACK 0000 and PACK values that look like a NAK, passwords of 17..32 bytes (24 = a three-key 3DES length),
    non-ASCII str passwords, and - with a chosen challenge and chosen tag data - MACs that begin or end in 00 / FF /
    white space or are all zero (felica_mac.solve_last_half), RndA / RndB of the Ultralight C handshake likewise"""
    shard = desc["shard"]
    reps = desc.get("directed", 1)
    for rep in range(reps):
        # (a) keys at the edges: the tag holds exactly that key / a key that differs in one bit of the edge byte
        for kind in ("lite", "lites", "ulc", NTAGS[(shard + rep) % 5], ULEV1[(shard + rep) % 2]):
            fam = family(kind)
            des = fam in ("lite", "lites", "ulc")
            for j, (name, key) in enumerate(edge_keys_des(rng) if des else edge_keys_pwd(rng)):
                if des and (j + shard + rep) % 2:
                    continue
                ptype = ("bytes", "bytearray")[(j + rep) % 2]
                evaluate({"exp": "auth", "ms": spec_for(rng, kind, key), "pw": key, "ptype": ptype,
                          "rel": "edge-key/" + name}, R)
                pos = int(name.rsplit("-", 1)[1]) if "-at-" in name and des else rng.choice([0, len(key) - 1])
                miss = flip_bit(key, pos * 8 + rng.randrange(7))
                evaluate({"exp": "auth", "ms": spec_for(rng, kind, miss), "pw": key, "ptype": ptype,
                          "rel": "edge-key-near-miss/" + name}, R)
        # (b) passwords longer than the key: only the first bytes are key material
        for kind in ("lite", "lites", "ulc", NTAGS[(shard + rep + 1) % 5]):
            fam = family(kind)
            n = KEYLEN[fam]
            lens = [17, 23, 24, 25, 31, 32] if n == 16 else [7, 8, 12, 16]
            for length in (lens[(shard + rep) % len(lens)], lens[(shard + rep + 3) % len(lens)]):
                ptype = rng.choice(["bytes", "bytearray"])
                pw = rng.randbytes(length)
                evaluate({"exp": "auth", "ms": spec_for(rng, kind, pw[:n]), "pw": pw, "ptype": ptype,
                          "rel": "long-password/%d" % length}, R)
                if canon(fam, pw[-n:]) != canon(fam, pw[:n]):
                    evaluate({"exp": "auth", "ms": spec_for(rng, kind, pw[-n:]), "pw": pw, "ptype": ptype,
                              "rel": "long-password-tail-held/%d" % length}, R)
            if n == 16:
                # protect -> authenticate with such a password and with a key at the edges
                length = lens[(shard + rep + 1) % len(lens)]
                pw = rng.randbytes(length)
                ptype = ("bytes", "bytearray", "bytes")[(shard + rep) % 3]
                evaluate({"exp": "protect", "ms": spec_for(rng, kind, FACTORY[fam]), "pw": pw, "ptype": ptype, "pf": 0,
                          "others": protect_others(rng, fam, pw, derive(fam, pw)) + [[pw[-n:], "password-tail"]]}, R)
                name, key = edge_keys_des(rng)[(shard + rep) % 17]
                evaluate({"exp": "protect", "ms": spec_for(rng, kind, FACTORY[fam]), "pw": key, "ptype": "bytes", "pf": 0,
                          "others": protect_others(rng, fam, key, key), "edge": name}, R)
        # (c) str passwords that are not ASCII (latin-1 range, so that the bytes they could stand for are defined)
        for kind in ("lite", "lites"):
            pw = "".join(chr(rng.choice([rng.randrange(0x20, 0x7F), rng.randrange(0xA0, 0x100)])) for _ in range(15)) + "\xe9"
            held = (rng.random() < 0.5)
            key = pw_bytes(pw) if held else other_key(rng, kind, pw_bytes(pw))[0]
            evaluate({"exp": "auth", "ms": t3_spec(rng, kind, key), "pw": pw, "ptype": "str",
                      "rel": "non-ascii-str/" + ("same" if held else "other")}, R)
        evaluate({"exp": "protect", "ms": t3_spec(rng, "lites", FACTORY["lites"], msg=b"", ndef=True), "pw": pw,
                  "ptype": "str", "pf": 0, "others": protect_others(rng, "lites", pw, pw_bytes(pw)[:16])}, R)
        # (d) chosen challenge + chosen free half of the ID block: the MAC that decides authenticate() has the pattern
        for j, name in enumerate(MAC_PATTERNS):
            if (j + shard + rep) % 3:
                continue
            for kind in ("lite", "lites"):
                pw = gen_password(rng, kind, "bytes", rng.choice([0, 16]))
                ms = t3_spec(rng, kind, derive(kind, pw))
                rc = rng.randbytes(16)
                target = mac_pattern(rng, name)
                ck, rcb = halves_reversed(ms["key"]), halves_reversed(rc)
                half = felica_mac.solve_last_half(ck, rcb, ms["idm"], target)
                if felica_mac.mac(ck, rcb, ms["idm"] + half) != target:
                    R.inconc("directed: the reference MAC solver does not reproduce its target")
                    continue
                ms["set"] = [[0x82, ms["idm"] + half]]
                evaluate({"exp": "auth", "ms": ms, "pw": pw, "ptype": "bytes", "rel": "mac-pattern/" + name,
                          "challenge": [rc], "target_mac": target}, R)
                # the same exchange with a bit of the edge byte of that MAC changed on the air
                evaluate({"exp": "auth-tamper", "ms": ms, "pw": pw, "mode": "bit", "challenge": [rc],
                          "tamper": {"at": 1, "bit": (29 + edge_byte(name)) * 8 + rng.randrange(8)}}, R)
                # ... and read_with_mac of blocks whose MAC has the pattern
                sel = [rng.randrange(1, 14) for _ in range(rng.choice([1, 2]))]
                ms2 = t3_spec(rng, kind, derive(kind, pw))
                m2 = build_model(ms2)
                data = bytearray(b"".join(m2.get_block(n) for n in sel))
                if sel.count(sel[-1]) > 1:
                    continue
                ck = halves_reversed(ms2["key"])
                data[-8:] = felica_mac.solve_last_half(ck, rcb, bytes(data[:-8]), target)
                ms2["set"] = [[sel[-1], bytes(data[-16:])]]
                nd = 16 * len(sel)
                acts = [{"bit": (13 + nd + edge_byte(name)) * 8 + rng.randrange(8)}, {"bit": 13 * 8 + rng.randrange(nd * 8)}]
                before = R.counters.get("mac_read_untampered_ok", 0)
                with recorded_challenges([rc]):
                    sess = readmac_session({"exp": "read-mac", "ms": ms2, "pw": pw, "blocks": sel, "mode": "bit",
                                            "challenge": [rc]}, R, acts, cache=False)
                if sess.challenges()[:1] == [rc] and R.counters.get("mac_read_untampered_ok", 0) > before:
                    R.count("mac_pattern_read_ok")
                    R.count("mac_pattern_read_ok/" + name)
        # (e) Ultralight C: RndA (reader, forced) and RndB (tag model) at the edges
        for j, name in enumerate(["z-first", "z-last", "z-all", "ff-all", "rotation-invariant", "z-head4"]):
            if (j + shard + rep) % 2:
                continue
            for which in ("rnda", "rndb"):
                v = bytes([0x5A] * 8) if name == "rotation-invariant" else mac_pattern(rng, name)
                pw = gen_password(rng, "ulc", "bytes", rng.choice([0, 16]))
                held = rng.random() < 0.7
                key = derive("ulc", pw) if held else other_key(rng, "ulc", derive("ulc", pw))[0]
                ms = t2_spec(rng, "ulc", key)
                case = {"exp": "auth", "ms": ms, "pw": pw, "ptype": "bytes",
                        "rel": "ulc-challenge/%s-%s%s" % (which, name, "" if held else "/other-key")}
                if which == "rnda":
                    case["challenge"] = [v]
                else:
                    ms["rndb"] = v
                evaluate(case, R)


# ---- protect with read protection, Type 2 tags that are protected already --------------------------------------
LOCKED_T2 = [  # (kind class, AUTH0, PROT, authenticate with the held key first)
    ("ntag", 4, False, True), ("ntag", 4, True, True), ("ntag", 3, True, False), ("ulev1", 4, True, True),
    ("ulc", 4, True, True), ("ulc", 3, False, True), ("ulc", 4, True, False), ("ntag", 0, True, True),
    ("ulev1", 16, False, False),
]


def w_protect_rp(R, rng, desc):
    shard = desc["shard"]
    for rep in range(desc.get("protect_rp", 1)):
        for kind in ("lite", "lites", NTAGS[(shard + rep) % 5], ULEV1[(shard + rep) % 2], "ulc"):
            fam = family(kind)
            n = KEYLEN[fam]
            for prior in (("factory", "issuer")[(shard + rep) % 2],) if kind != "lites" else ("factory", "issuer"):
                ptype = ("bytes", "bytearray")[(shard + rep + len(kind)) % 2]
                pw = gen_password(rng, fam, ptype, rng.choice([n, n, n + 4, 0]) if not (kind == "lites" and
                                                                                      prior == "issuer") else n + 8)
                key = derive(fam, pw)
                while True:
                    prior_key = FACTORY[fam] if prior == "factory" else rng.randbytes(n)
                    if prior == "factory" or canon(fam, prior_key) not in (canon(fam, key), canon(fam, FACTORY[fam])):
                        break
                ms = spec_for(rng, kind, prior_key, msg=rng.randbytes(rng.choice([0, 7, 40])), ndef=True) \
                    if kind in ("lite", "lites") else spec_for(rng, kind, prior_key)
                pf = rng.choice([0, 2, 4] if kind in ("lite", "lites") else [0, 3, 4, 8])
                evaluate({"exp": "protect", "ms": ms, "pw": pw, "ptype": ptype, "pf": pf, "rp": 1, "prior": prior,
                          "others": protect_others(rng, fam, pw, key, prior_key if prior == "issuer" else None)}, R)
        # Type 2 tags whose AUTH0 / PROT are set already and that hold another key
        for k in range(3):
            cls, auth0, prot, pre_auth = LOCKED_T2[(3 * (shard + rep) + k) % len(LOCKED_T2)]
            kind = {"ntag": NTAGS[(shard + rep + k) % 5], "ulev1": ULEV1[(shard + rep + k) % 2], "ulc": "ulc"}[cls]
            fam = family(kind)
            n = KEYLEN[fam]
            pw = gen_password(rng, fam, "bytes", rng.choice([n, n + 2, 0]))
            key = derive(fam, pw)
            while True:
                prior_key = rng.randbytes(n)
                if canon(fam, prior_key) not in (canon(fam, key), canon(fam, FACTORY[fam])):
                    break
            ms = dict(spec_for(rng, kind, prior_key), auth0=auth0, prot=prot)
            evaluate({"exp": "protect", "ms": ms, "pw": pw, "ptype": "bytes", "pf": rng.choice([0, 4]),
                      "rp": int(rng.random() < 0.5), "prior": "locked", "pre_auth": pre_auth,
                      "locked": "%s-auth0-%d-%s" % (cls, auth0, "prot" if prot else "write-only"),
                      "others": protect_others(rng, fam, pw, key, prior_key)}, R)


def run(desc, R, rng):
    recs = install_recorders()
    for rec in recs.values():
        del rec.values[:]
    felica = ["lite", "lites"]
    w_auth(R, rng, felica, desc["auth_felica"])
    w_auth(R, rng, list(NTAGS + ULEV1), desc["auth_ntag"])
    w_auth(R, rng, ["ulc"], desc["auth_ulc"])
    w_auth_tamper(R, rng, desc)
    w_auth_reblock(R, rng, desc)
    w_auth_resize(R, rng, desc)
    w_read_mac(R, rng, desc)
    w_ndef(R, rng, desc)
    w_write_mac(R, rng, desc)
    w_protect(R, rng, desc)
    w_protect_prior(R, rng, desc)
    w_order(R, rng, desc)
    w_hist(R, rng, desc)
    w_read_edges(R, rng, desc)
    w_transcript(R, rng, desc)
    w_fresh(R, rng, desc)
    w_directed(R, rng, desc)
    w_protect_rp(R, rng, desc)
    shard_freshness(R, recs)
