"""C10 - nothing sent on an LLCP link exceeds the peer's announced MIU; aggregation is transparent.

Two real LogicalLinkControllers (vf.sim.llcpair.LockstepPair, strictly alternating link turns A,B,A,B...) run
queue-filling histories.  A wire monitor sees every transmitted frame (both directions; each controller is a
sender under test against the MIU the *other* one announced in its general bytes):

  link-miu      information field of the frame (bytes after the 2-byte header; 3 for a lone I/RR/RNR) <= Link MIU
                announced by the receiver (read from the receiver's general bytes with the independent decoder)
  payload       every I payload <= MIU announced by the receiving connection endpoint in its CONNECT/CC (from the
                wire, default 128); every UI payload <= receiver's Link MIU
  transparency  leaf PDUs of the collected frame  ==  leaf PDUs on the wire (independent AGF split + llcp_ref)
                ==  leaf PDUs handed to the receiver's dispatch(), same order; an access point enqueue during a
                leaf dispatch gets exactly that PDU

  conservation  (the sender half of "exactly the PDUs ... in the same order") every message a send()/sendto() call
                accepted is recorded at the socket API; per sending endpoint (I: end, SSAP, DSAP and which socket of
                the harness was that endpoint; UI: end, SSAP) the I/UI payloads on the wire must be the accepted
                ones, in the order of acceptance, each once (checked leaf by leaf while the history runs), and - when
                the link went quiet and the connection was neither ended (DISC/FRMR, close()) nor disturbed by the
                harness' virtual peer - all of them; ended/disturbed connections: the wire is a subsequence
  delivery      the messages the receiving application reads from a socket are the I payloads the wire carried for
                that connection, in order, each once (UI: a subsequence, connection-less data may be dropped)
  routing       a dispatched leaf PDU is handed to the access point its DSAP addresses (connect-by-name: the access
                point the harness bound under that name), once, whenever that access point exists

A PDU submitted through a raw access point socket of the sender is exempt from the size rules (the property says
so), not from transparency; the exemption is per leaf: the other members of an aggregate that carries such a PDU
still have to fit (no member other than the raw one may end beyond the Link MIU).

An exception that leaves collect()/encode (sender) or decode/dispatch (receiver) is a verdict (the PDUs dequeued so
far are lost); an exception in the harness' own observers makes the run INCONCLUSIVE.

Profile `vack` aims at the last stage of collect(): 2..6 data link connections of the sender (receive window
2..15) have received I PDUs the application has read, so that sendack() owes a *voluntary* RR/RNR on each, and a
leading UI/I PDU of Link MIU-60..Link MIU octets (swept octet by octet over consecutive rounds of one history)
leaves every possible remainder of room in front of the acknowledgement loop; necessary acknowledgements
(window exhausted), RNR (receive-busy), DM and SNL answers are mixed in.  The verdict is still the wire monitor's
(information field against the announced Link MIU); a harness side wrapper of DataLinkConnection.sendack() and a
look at the sender's connection state only feed the coverage counters (which leaf PDUs were voluntary
acknowledgements, how many were still owed, how much room the acknowledgement loop found).

Profile `conn` sets connections up while the queues are in use: connect() by address and by service names of 1..200
octets (bound on the peer under SAP 16..31, or bound nowhere), accept() and refusals make CONNECT, CC and DM PDUs due
behind (or in front of) a data PDU that leaves -4..+4 octets around what they need in the aggregate; sockets,
listeners and whole connections are created in mid-history; a connection is closed and made again from the same SAP
pair with another MIU (the payload oracle forgets a connection's MIUs at its DISC/DM/FRMR and follows the new
CONNECT/CC) and then used up to SO_SNDMIU and one octet beyond; raw access point PDUs travel beside others.
"""
import os
import random
import struct
import threading
import time
import traceback

from vf.core.rec import exc_sig
from vf.ref import llcp_ref as ref

ID = "C10"
LEVEL = "exploration"
RULE = ("a case is one history: (Link MIU announced by A, by B, aggregation on/off per side, socket set-up, "
        "operation list) executed on two real link controllers with alternating link turns; operations fill the send "
        "queues (connection/connection-less sends sized relative to the negotiated MIU, up to 500 service discovery "
        "requests answered in batches, concurrent resolve() calls with names of 1..60 bytes, CONNECT/DISC/I/RR "
        "PDUs from the peer that make DM/FRMR/RR due, receive-busy toggles, close; profile vack: 10..21 rounds in "
        "which 2..6 connections with receive window 2..15 owe voluntary acknowledgements while a leading UI/I PDU of "
        "Link MIU-60..Link MIU octets, stepped octet by octet, plus necessary acks/RNR/DM/SNL fill the aggregate; "
        "profile conn: 5..11 rounds in which connect() by address and by service names of 1..200 octets (bound on "
        "the peer or not), accept() and refusals make CONNECT/CC/DM due behind a data PDU that leaves -4..+4 octets "
        "around what they need, sockets/listeners/connections are created while the history runs, a connection is "
        "closed and made again from the same SAP pair with another MIU and used up to SO_SNDMIU+1, raw access point "
        "PDUs travel beside others); every accepted send()/sendto() and every message read is recorded; "
        "distinct by the whole tuple; "
        "non-trivial if at least one non-SYMM frame went through the size and transparency oracles")
ASSUMPTIONS = ["vf.ref.llcp_ref and the 10-line aggregate splitter in this module read wire frames correctly",
               "the Link MIU a controller announces is the MIUX TLV of the general bytes it hands to the MAC "
               "(cross-checked against the configured value; a mismatch makes the history inconclusive)",
               "PDUs handed to a controller with dispatch() by the harness stand for frames a peer sent; "
               "they are not subject to the oracles, the controller's answers are",
               "link turns alternate strictly (A,B,A,B) as NFC-DEP forces them to; an idle side sends SYMM",
               "the harness looks at socket internals (state, queues) only to steer the workload and to decide whether "
               "an endpoint is unambiguous (conservation/delivery are not judged otherwise); whether an access point "
               "exists at the moment of a dispatch is read from the controller's own table",
               "service names are resolved by the harness' own table of the names it bound"]
REQUIRED = ["frames_checked", "agf_frames", "transparency_compared", "pdu_len_contract", "snl_gt30_answers",
            "frames_at_exact_miu_lone", "frames_at_exact_miu_agf", "rr_in_agf", "dm_in_agf", "i_payload_checked",
            "ui_payload_checked", "miu_not_multiple_of_4_checked",
            # every half of the transparency oracle saw something
            "enqueue_observed", "transparency_encode_compared", "transparency_compared_agf",
            # routing clause
            "enqueue_routed_checked", "enqueue_by_name_checked",
            # conservation / delivery
            "conservation_wire_checked_I", "conservation_wire_checked_UI", "conservation_wire_checked_in_agf",
            "conservation_complete_checked_I", "conservation_complete_checked_UI", "delivery_checked_I",
            "delivery_checked_UI", "delivery_complete_checked",
            # service discovery answers and own requests in one SNL PDU; sends between connection and Link MIU
            "snl_answers_and_requests", "snl_answers_and_requests_near_full",
            "i_payload_checked_connection_miu_below_link_miu",
            "dlc_send_above_connection_miu_within_link_miu_not_accepted",
            # profile conn: connection set-up PDUs behind data in nearly full aggregates, sockets and connections made
            # while the history runs, a SAP pair connected twice, raw access point PDUs beside others
            "histories_conn", "mid_connect_established_by_addr", "mid_connect_established_by_name",
            "mid_connect_refused_by_addr", "mid_connect_refused_by_name", "connect_behind_data_in_agf",
            "connect_by_name_in_agf", "cc_behind_data_in_agf", "dm_behind_data_in_agf",
            "agf_near_full_with_connection_setup", "mid_history_setups", "reconnect_calls",
            "connection_miu_forgotten_on_DISC", "i_payload_checked_on_sap_pair_connected_again",
            "frames_with_raw_and_other_leaves", "raw_comembers_checked",
            # profile vack: the acknowledgement loop of collect() was reached in the deciding situations
            "histories_vack",
            "agf_2plus_vack_behind_other", "frames_at_exact_miu_agf_with_vack", "vack_loop_stopped_free_4",
            "agf_vack_with_other_ack", "agf_vack_with_dm_or_snl"] + ["vack_room_%02d" % _r for _r in range(13)]

SPECIAL = (list(range(128, 141)) + list(range(247, 261)) + list(range(1000, 1004)) + list(range(2170, 2176)))
PROFILES = ["sd", "edge", "mix", "mix"]
VACK_REPS = {"quick": 12, "thorough": 3}       # histories of profile vack per target Link MIU
CONN_REPS = {"quick": 3, "thorough": 1}        # histories of profile conn per target Link MIU and aggregation mode
VACK_SWEEP = 61                                # leading PDU sizes Link MIU-60 .. Link MIU


# ---------------------------------------------------------------------------------------------
def plan(tier, seed):
    rng = random.Random(seed * 7919 + 10)
    n = 16
    if tier == "quick":
        targets = list(SPECIAL) + [rng.randrange(141, 2170) for _ in range(11)]
        reps = 32
        tmo = 240
    else:
        targets = list(range(128, 2176))
        reps = 16
        tmo = 3000
    vreps = VACK_REPS[tier if tier in VACK_REPS else "thorough"]
    creps = CONN_REPS[tier if tier in CONN_REPS else "thorough"]
    jobs = []
    for r in range(reps):
        for t in targets:
            for agf in (1, 0):
                jobs.append([t, agf, PROFILES[(r + agf) % len(PROFILES)]])
            if r < vreps:
                jobs.append([t, 1, "vack"])       # voluntary acknowledgements exist with aggregation only
            if r < creps:
                jobs.append([t, 1, "conn"])
                jobs.append([t, 1 if r % 2 else 0, "conn"])
    return [{"jobs": jobs[i::n], "timeout": tmo} for i in range(n)]


# ---------------------------------------------------------------------------------------------
def miu_class(m):
    if m <= 140:
        return "128_140"
    if m <= 260:
        return "141_260"
    if m <= 1003:
        return "261_1003"
    return "1004_2175"


def split_agf(enc):
    """leaf PDU byte strings of a frame (independent of nfcpy); None if the aggregate is malformed"""
    ptype = ((enc[0] << 8 | enc[1]) >> 6) & 15
    if ptype != 2:
        return [bytes(enc)]
    out, i = [], 2
    while i < len(enc):
        if len(enc) - i < 2:
            return None
        n = enc[i] << 8 | enc[i + 1]
        if n < 2 or i + 2 + n > len(enc):
            return None
        sub = split_agf(enc[i + 2:i + 2 + n])
        if sub is None:
            return None
        out.extend(sub)
        i += 2 + n
    return out


def members(enc):
    """top level members (byte strings) of an aggregate"""
    out, i = [], 2
    while i + 2 <= len(enc):
        n = enc[i] << 8 | enc[i + 1]
        out.append(bytes(enc[i + 2:i + 2 + n]))
        i += 2 + n
    return out


def describe(d):
    """structural name of a leaf PDU for mechanism signatures"""
    if d["t"] == "SNL":
        if d["sdres"] and d["sdreq"]:
            return "SNL.sdres+sdreq"
        if d["sdres"]:
            return "SNL.sdres"
        if d["sdreq"]:
            return "SNL.sdreq"
        return "SNL.empty"
    return d["t"]


def canon(d):
    return ref.encode(d)


# ---------------------------------------------------------------------------------------------
class MonitorError(Exception):
    """the harness' own observer failed; the run is INCONCLUSIVE (recorded where it happened), the history stops"""


class Judged(Exception):
    """an exception of nfcpy that was turned into a verdict where it surfaced; the history stops"""

    def __init__(self, orig):
        Exception.__init__(self, repr(orig))
        self.orig = orig


def here_sig(e):
    tb = traceback.extract_tb(e.__traceback__)
    if not tb:
        return type(e).__name__
    return "%s@%s:%s" % (type(e).__name__, os.path.basename(tb[-1].filename), tb[-1].name)


def subseq(w, a):
    """w is a subsequence of a (greedy matching decides it)"""
    i, n = 0, len(w)
    for x in a:
        if i < n and w[i] == x:
            i += 1
    return i == n


_ENQ_HOOKS = {}
_ENQ_PATCHED = []


def _patch_enqueue():
    """observe ServiceAccessPoint.enqueue / ServiceDiscovery.enqueue (harness side wrapper, once per process)"""
    if _ENQ_PATCHED:
        return
    import nfc.llcp.llc as L
    for cls in (L.ServiceAccessPoint, L.ServiceDiscovery):
        orig = cls.enqueue

        def enqueue(self, rcvd_pdu, _orig=orig):
            hook = _ENQ_HOOKS.get(id(self.llc))
            if hook is not None:
                hook(self, rcvd_pdu)
            return _orig(self, rcvd_pdu)
        cls.enqueue = enqueue
    _ENQ_PATCHED.append(L.ServiceDiscovery)


_VACKS = []                # PDU objects DataLinkConnection.sendack() returned during the current link turn
_VACK_PATCHED = []


def _patch_sendack():
    """remember which PDU objects are voluntary acknowledgements (coverage counters only, never a verdict)"""
    if _VACK_PATCHED:
        return
    import nfc.llcp.tco as T
    orig = T.DataLinkConnection.sendack

    def sendack(self, _orig=orig):
        p = _orig(self)
        if p is not None:
            _VACKS.append(p)
        return p
    T.DataLinkConnection.sendack = sendack
    _VACK_PATCHED.append(True)


class Monitor:
    def __init__(self, R, lp, case):
        from vf.core import nfcpdu, contracts
        import nfc.llcp.pdu as P
        self.R, self.lp, self.case, self.P = R, lp, case, P
        self.Contract = contracts.ContractBroken
        self.fields, self.flat = nfcpdu.fields, nfcpdu.flatten
        self.announced = {}
        for end, gb, cfg in (("A", lp.gbi, case["miu_a"]), ("B", lp.gbt, case["miu_b"])):
            pax = ref.decode(b"\x00\x40" + bytes(gb[3:]))
            self.announced[end] = pax["miu"]
            if pax["miu"] != cfg:
                R.inconc("controller %s configured with miu=%d announces %d" % (end, cfg, pax["miu"]))
        self.agf = {"A": bool(case["agf_a"]), "B": bool(case["agf_b"])}
        self.conn_pending = {}     # (end, local sap) -> [(dsap, miu)] of CONNECTs not yet answered by CC/DM
        self.conn_miu = {}         # (receiving end, its sap, sender's sap) -> miu the receiving endpoint announced
        self.conn_ended = 0        # connections whose end was seen (DISC/DM/FRMR): their MIUs were forgotten
        self.ended_keys = set()    # conn_miu keys that were forgotten at least once
        self.raw_pending = {"A": [], "B": []}
        self.frames = 0
        self.active = None
        self.rx = []
        self.cur_leaf = None
        self.enq_for_leaf = 0
        self.failed = False        # an observer of the harness raised: nothing more is judged in this history
        # routing: service names the harness bound (name -> SAP) per end
        self.names = {"A": {b"urn:nfc:sn:sdp": 1}, "B": {b"urn:nfc:sn:sdp": 1}}
        self.exp_sap, self.exp_exists, self.by_name = None, False, False
        # conservation / delivery (see module docstring)
        self.acc, self.wseq, self.dlv, self.got = {}, {}, {}, {}
        self.socks_of = {}         # endpoint (end, SAP, remote SAP) -> sockets of the harness that were it, in order
        self.dist = set()          # (endpoint, segment) not left alone: order rules only, completeness not demanded
        self.ambiguous = set()     # endpoints with two sockets of the harness that may both send
        self.broken = set()        # stream keys already reported (no cascades)
        self.early = set()         # delivery keys whose data overtook the CC (receiver still connecting)
        self.sockinfo = {}
        self.connecting = set()    # (end, SAP) of sockets of the harness whose connect() has not returned yet
        self.tainted = False       # a helper thread did not settle: nothing that depends on thread progress is judged
        _patch_enqueue()
        _patch_sendack()
        for end in ("A", "B"):
            self._wrap_dispatch(end)
        self.last = None
        self.tops = []

    # -- failures of the harness itself -----------------------------------------------------------
    def monitor_failed(self, where, e):
        self.failed = True
        self.R.count("monitor_errors")
        self.R.inconc("the harness' own observer failed in %s: %s %s" % (where, here_sig(e), repr(e)[:200]))

    # -- receiver side observation -------------------------------------------------------------
    def _wrap_dispatch(self, end):
        llc = self.lp.llc(end)
        orig = llc.dispatch

        def dispatch(rcvd_pdu):
            leaf = (self.active == end and rcvd_pdu is not None and getattr(rcvd_pdu, "name", None) != "AGF")
            if not leaf:
                return orig(rcvd_pdu)
            lock = getattr(llc, "lock", None)
            if lock is None:
                self.monitor_failed("dispatch observer", AttributeError("controller has no lock"))
                return orig(rcvd_pdu)
            # the access point table is read and the PDU dispatched under the controller's (re-entrant) lock, so that
            # a socket being closed by a helper thread cannot make "the access point exists" stale
            with lock:
                try:
                    self.leaf_begin(end, llc, rcvd_pdu)
                except Exception as e:
                    self.monitor_failed("dispatch observer", e)
                done = False
                try:
                    r = orig(rcvd_pdu)
                    done = True
                    return r
                finally:
                    try:
                        self.leaf_end(end, done)
                    except Exception as e:
                        self.monitor_failed("dispatch observer", e)
        llc.dispatch = dispatch
        _ENQ_HOOKS[id(llc)] = lambda sap, p, end=end: self.enqueue_hook(end, sap, p)

    def leaf_begin(self, end, llc, rcvd_pdu):
        self.rx.append(rcvd_pdu)
        self.cur_leaf, self.enq_for_leaf = rcvd_pdu, 0
        self.exp_sap, self.exp_exists, self.by_name = None, False, False
        f = self.fields(rcvd_pdu)
        exp = f["dsap"]
        if f["t"] == "CONNECT" and exp == 1:
            # connect-by-name: the access point of the socket the harness bound under that name, if any
            self.by_name = True
            exp = self.names[end].get(f["sn"]) if f["sn"] else None
        self.exp_sap = exp
        if exp is not None:
            table = llc.sap                   # nfcpy's table says whether the access point exists at this moment
            self.exp_exists = 0 <= exp < len(table) and table[exp] is not None

    def leaf_end(self, end, done):
        leaf, self.cur_leaf = self.cur_leaf, None
        if not done or self.failed or leaf is None:
            return
        R = self.R
        if self.exp_exists:
            R.count("enqueue_routed_checked")
            if self.by_name:
                R.count("enqueue_by_name_checked")
            if self.enq_for_leaf == 0:
                t = self.fields(leaf)["t"]
                R.violation("transparency/enqueue/missing-%s%s" % (t, "-by-name" if self.by_name else ""),
                            "a dispatched %s PDU was not handed to the access point %d although it exists"
                            % (t, self.exp_sap), self.case)
        else:
            R.count("leaf_for_absent_access_point")

    def enqueue_hook(self, end, sap, p):
        try:
            self.on_enqueue(end, sap, p)
        except Exception as e:
            self.monitor_failed("enqueue observer", e)

    def on_enqueue(self, end, sap, p):
        if self.active != end or self.failed:
            return
        R = self.R
        R.count("enqueue_observed")
        if self.cur_leaf is None:
            R.violation("transparency/enqueue/outside-leaf-dispatch", "an access point got a PDU while no leaf PDU of "
                        "the received frame was being dispatched", self.case)
            return
        self.enq_for_leaf += 1
        if self.enq_for_leaf > 1:
            R.violation("transparency/enqueue/duplicated", "one received PDU was handed to access points twice", self.case)
        a, b = self.fields(self.cur_leaf), self.fields(p)
        # routing: the access point that got it is the one the PDU addresses
        landed = 1 if isinstance(sap, _ENQ_PATCHED[0]) else sap.addr
        if landed != self.exp_sap:
            R.violation("transparency/enqueue/misrouted-%s%s" % (a["t"], "-by-name" if self.by_name else ""),
                        "a %s PDU for access point %s was handed to access point %s" % (a["t"], self.exp_sap, landed),
                        self.case)
        if a["t"] == "CONNECT" and a["dsap"] == 1:
            a = dict(a, dsap=b["dsap"], sn=None)      # connect-by-name is re-addressed to the bound SAP
            b = dict(b, sn=None)
        if canon(a) != canon(b):
            R.violation("transparency/enqueue/altered-%s" % a["t"], "the PDU handed to the access point differs from "
                        "the dispatched one: %s vs %s" % (canon(a).hex()[:60], canon(b).hex()[:60]), self.case)

    # -- bookkeeping of connection MIUs (wire or peer-injected PDUs) --------------------------
    def note_params(self, sender, d, virtual=False):
        """MIU announced by connection endpoints.  An endpoint is known on the wire as (end, its SAP, peer SAP).  A
        connection ends with DISC, DM or FRMR: what its endpoints announced is forgotten then and the next CONNECT/CC
        of that SAP pair counts alone.  Only when no end was seen (the harness' virtual peer re-uses a source SAP for
        several CONNECTs) the largest announced value counts (weaker, never a false alarm).  An end announced by the
        virtual peer (injected PDU) only ends what the controller it was handed to sends."""
        other = "B" if sender == "A" else "A"
        t = d["t"]
        if t == "CONNECT":
            self.conn_pending.setdefault((sender, d["ssap"]), []).append((d["dsap"], d["miu"]))
        elif t == "CC":
            key = (sender, d["ssap"], d["dsap"])
            self.conn_miu[key] = max(d["miu"], self.conn_miu.get(key, 0))
            pend = self.conn_pending.get((other, d["dsap"]), [])
            cands = [m for ds, m in pend if ds in (d["ssap"], 1)]
            if cands:
                key = (other, d["dsap"], d["ssap"])
                self.conn_miu[key] = max(cands + [self.conn_miu.get(key, 0)])
                pend[:] = [(ds, m) for ds, m in pend if ds not in (d["ssap"], 1)]
        elif t in ("DM", "DISC", "FRMR"):
            if t == "DM":
                pend = self.conn_pending.get((other, d["dsap"]), [])
                pend[:] = [(ds, m) for ds, m in pend if ds != d["ssap"]]
                if virtual:
                    return            # an established endpoint ignores a DM: nothing has ended
            # I PDUs `other` sends to `sender` on this SAP pair belong to no connection any more ...
            keys = [(sender, d["ssap"], d["dsap"])]
            if not virtual:
                # ... and neither do those of `sender` (a real endpoint that says DISC/DM/FRMR has stopped sending)
                keys.append((other, d["dsap"], d["ssap"]))
            gone = False
            for key in keys:
                if self.conn_miu.pop(key, None) is not None:
                    gone = True
                    self.ended_keys.add(key)
            if gone:
                self.conn_ended += 1
                self.R.count("connection_miu_forgotten_on_%s" % t)

    # -- conservation: what the applications handed over / got ------------------------------------
    # A connection endpoint is T = (end, its SAP, the remote SAP).  The sockets of the harness that were this endpoint
    # one after the other are its segments (numbered by registration); a stream is (T, segment).  What a socket was
    # given / gave is booked under its own segment; what the wire carries for T is booked under the segment of the
    # socket registered last.  That is right only if the earlier sockets of T have nothing left to send when a new
    # one is registered - looked up in their state and send queue then (workload knowledge, like has_pending_connect);
    # if they may still send (the virtual peer re-used a source SAP, a new connection was accepted before the old
    # socket's DISC went out) or the look-up fails, the endpoint is ambiguous and none of its streams is judged.
    def may_still_send(self, sock):
        try:
            tco = sock._tco
            return bool(tco.state.ESTABLISHED or any(getattr(q, "name", "") == "I" for q in list(tco.send_queue)))
        except Exception:
            return True

    def register(self, end, sock, addr, peer):
        """a data link connection endpoint of the harness exists from now on"""
        if id(sock) in self.sockinfo:
            return self.sockinfo[id(sock)]
        if addr is None or peer is None:
            return None
        T = (end, addr, peer)
        prev = self.socks_of.setdefault(T, [])
        if T not in self.ambiguous and any(self.may_still_send(x) for x in prev):
            self.ambiguous.add(T)
            self.R.count("conservation_endpoints_ambiguous")
        info = (end, addr, peer, len(prev))
        prev.append(sock)
        if len(prev) > 1:
            self.R.count("conservation_endpoint_segments_after_the_first")
        self.sockinfo[id(sock)] = info
        return info

    def seg(self, T):
        return len(self.socks_of.get(T, ())) - 1

    def info_of(self, end, sock):
        info = self.sockinfo.get(id(sock))
        if info is None:
            info = self.register(end, sock, sock.getsockname(), sock.getpeername())
        return info

    def local_close(self, end, sock):
        """the harness closes a socket: what is still queued may be discarded, what was not read is gone"""
        info = self.sockinfo.get(id(sock))
        if info is not None:
            self.dist.add((info[:3], info[3]))

    def accepted(self, end, sock, kind, data, dsap=None, ssap=None):
        """send()/sendto() returned True for this message"""
        if kind == "I":
            info = self.info_of(end, sock)
            if info is None:
                self.R.count("accepted_on_unknown_endpoint")
                return
            key = ("I",) + info
            item = bytes(data)
        else:
            key = ("UI", end, ssap)
            item = (dsap, bytes(data))
        self.acc.setdefault(key, []).append(item)
        self.R.count("conservation_accepted_" + kind)

    def mode_rx(self, T, g):
        """delivery at endpoint T: also not judged when the sending side is ambiguous (the data of two sockets with
        two numberings arrives at one endpoint, which then rejects part of it)"""
        if ("B" if T[0] == "A" else "A", T[2], T[1]) in self.ambiguous:
            return "ambiguous"
        return self.mode(T, g)

    def mode(self, T, g):
        if T in self.ambiguous:
            return "ambiguous"
        if (T, g) in self.dist or self.tainted:
            return "order"
        return "clean"

    def wire_data(self, snd, rcv, x, where):
        """one I/UI leaf on the wire: the next accepted message of its sending endpoint"""
        R = self.R
        t = x["t"]
        if t == "I":
            Ts, Tr = (snd, x["ssap"], x["dsap"]), (rcv, x["dsap"], x["ssap"])
            gs = self.seg(Ts)
            key = ("I",) + Ts + (gs,)
            dkey = ("I",) + Tr + (self.seg(Tr),)
            item = ditem = bytes(x["data"])
            mode = self.mode(Ts, gs)
            if ((rcv, x["dsap"]) in self.connecting
                    or [1 for ds, mm in self.conn_pending.get((rcv, x["dsap"]), []) if ds in (x["ssap"], 1)]):
                self.early.add(dkey)                  # the receiving endpoint's connect() has not returned yet
        else:
            key = ("UI", snd, x["ssap"])
            dkey = ("UI", rcv, x["dsap"])
            item, ditem = (x["dsap"], bytes(x["data"])), (x["ssap"], bytes(x["data"]))
            mode = "order" if self.tainted else "clean"
        w = self.wseq.setdefault(key, [])
        if mode == "clean" and key not in self.broken:
            R.count("conservation_wire_checked_" + t)
            if where == "in-AGF":
                R.count("conservation_wire_checked_in_agf")
            a = self.acc.get(key, ())
            k = len(w)
            if not (k < len(a) and a[k] == item):
                self.broken.add(key)
                if item not in a:
                    kind = "not-accepted"
                elif w.count(item) >= a.count(item):
                    kind = "duplicated"
                else:
                    kind = "out-of-order"
                R.violation("conservation/%s/wire-%s/%s" % (t, kind, where), "%s payload number %d of the sending "
                            "endpoint %s on the wire is not the message accepted as number %d (%d accepted so far)"
                            % (t, k + 1, key[1:4], k + 1, len(a)), self.case)
        elif mode == "ambiguous":
            R.count("conservation_wire_skipped_ambiguous")
        w.append(item)
        self.dlv.setdefault(dkey, []).append(ditem)

    def end_event(self, snd, rcv, x):
        """DISC or FRMR on the wire: both endpoints may discard what they have queued or not read (order rules only
        from here on, completeness not demanded)"""
        Ts, Tr = (snd, x["ssap"], x["dsap"]), (rcv, x["dsap"], x["ssap"])
        self.dist.add((Ts, self.seg(Ts)))
        self.dist.add((Tr, self.seg(Tr)))
        self.R.count("connection_ends_on_wire")

    def injected(self, end, d):
        """the virtual peer of `end` says d (handed to the controller directly, not on the wire): the endpoint it
        talks to and the real counterpart of that endpoint are not left alone any more"""
        t = d["t"]
        if t in ("I", "RR", "RNR", "DISC", "DM", "FRMR", "UI") and d["dsap"] > 1:
            other = "B" if end == "A" else "A"
            T, Tc = (end, d["dsap"], d["ssap"]), (other, d["ssap"], d["dsap"])
            self.dist.add((T, self.seg(T)))
            self.dist.add((Tc, self.seg(Tc)))
            if t == "I":
                self.dlv.setdefault(("I",) + T + (self.seg(T),), []).append(bytes(d["data"]))
            elif t == "UI":
                self.dlv.setdefault(("UI", end, d["dsap"]), []).append((d["ssap"], bytes(d["data"])))

    def received(self, end, sock, kind, data, ssap=None):
        """the application read a message from a socket"""
        R = self.R
        if kind == "I":
            info = self.info_of(end, sock)
            if info is None:
                R.count("received_on_unknown_endpoint")
                return
            key = ("I",) + info
            got = self.got.setdefault(key, [])
            data = bytes(data)
            if self.mode_rx(info[:3], info[3]) == "clean" and key not in self.broken and key not in self.early:
                R.count("delivery_checked_I")
                dl = self.dlv.get(key, ())
                k = len(got)
                if not (k < len(dl) and dl[k] == data):
                    self.broken.add(key)
                    if data not in dl:
                        kind_ = "not-on-wire"
                    elif got.count(data) >= dl.count(data):
                        kind_ = "duplicated"
                    else:
                        kind_ = "out-of-order"
                    R.violation("delivery/I/received-" + kind_, "message number %d read from the endpoint %s is not "
                                "I payload number %d the wire carried for it (%d so far)" % (k + 1, key[1:4], k + 1,
                                                                                              len(dl)), self.case)
            got.append(data)
        else:
            self.got.setdefault(("UI", end, sock.getsockname()), []).append((ssap, bytes(data)))
            R.count("delivery_recorded_UI")

    def final_checks(self, quiescent):
        """end of the history (before the link is terminated)"""
        R = self.R
        if self.failed:
            return
        for key in set(self.acc) | set(self.wseq):
            a, w = self.acc.get(key, []), self.wseq.get(key, [])
            t = key[0]
            if t == "I":
                T, g = key[1:4], key[4]
                mode, current = self.mode(T, g), g == self.seg(T)
            else:
                mode, current = ("order" if self.tainted else "clean"), True
            if mode == "ambiguous" or key in self.broken:
                continue
            if mode == "order":
                R.count("conservation_order_only_streams")
                if not subseq(w, a):
                    R.violation("conservation/%s/wire-not-subsequence-of-accepted" % t, "the %s payloads of the sending "
                                "endpoint %s on the wire (%d) are not a subsequence of the accepted messages (%d)"
                                % (t, key[1:4], len(w), len(a)), self.case)
            elif quiescent and current:
                R.count("conservation_streams_complete_checked")
                R.count("conservation_complete_checked_" + t)
                if len(w) < len(a):
                    R.violation("conservation/%s/accepted-never-sent" % t, "%d of %d messages accepted by the sending "
                                "endpoint %s never appeared on the wire although the link went quiet and the "
                                "connection was not ended" % (len(a) - len(w), len(a), key[1:4]), self.case)
        # delivery
        for key, got in self.got.items():
            if key in self.broken:
                continue
            dl = self.dlv.get(key, [])
            if key[0] == "UI":
                R.count("delivery_checked_UI")
                if not subseq(got, dl):
                    R.violation("delivery/UI/received-not-subsequence-of-wire", "the messages read from the connection-"
                                "less endpoint %s (%d) are not a subsequence of the UI payloads the wire carried for it "
                                "(%d)" % (key[1:3], len(got), len(dl)), self.case)
                continue
            mode = self.mode_rx(key[1:4], key[4])
            if mode == "order" or (mode == "clean" and key in self.early):
                R.count("delivery_order_only_streams")
                if not subseq(got, dl):
                    R.violation("delivery/I/received-not-subsequence-of-wire", "the messages read from the endpoint %s "
                                "(%d) are not a subsequence of the I payloads the wire carried for it (%d)"
                                % (key[1:4], len(got), len(dl)), self.case)
        if quiescent and not self.tainted:
            for info in self.sockinfo.values():
                T, g = info[:3], info[3]
                key = ("I",) + info
                if self.mode_rx(T, g) != "clean" or g != self.seg(T) or key in self.early or key in self.broken:
                    continue
                dl, got = self.dlv.get(key, []), self.got.get(key, [])
                R.count("delivery_complete_checked")
                if len(got) < len(dl):
                    self.broken.add(key)
                    R.violation("delivery/I/wire-never-received", "%d of %d I payloads the wire carried for the "
                                "endpoint %s were never read by its application although the link went quiet and the "
                                "connection was not ended" % (len(dl) - len(got), len(dl), key[1:4]), self.case)

    # -- sender side: the frame on the wire ----------------------------------------------------
    def on_frame(self, direction, enc, p):
        R = self.R
        snd, rcv = direction[0], direction[2]
        link = self.announced[rcv]
        self.frames += 1
        R.count("frames_checked")
        try:
            d = ref.decode(enc)
            leaves = split_agf(enc)
        except (ref.Reject, IndexError) as e:
            R.violation("wire/unreadable", "the reference reader rejects a transmitted frame: %r %s" % (e, enc.hex()[:80]),
                        self.case)
            self.last = None
            return
        if leaves is None:
            R.violation("wire/unreadable", "malformed aggregate on the wire: %s" % enc.hex()[:80], self.case)
            self.last = None
            return
        ld = [ref.decode(x) for x in leaves]
        top = d["t"]
        R.seen("frame_types", top)
        # raw access point exemption, leaf by leaf
        pend = self.raw_pending[snd]
        israw = [False] * len(leaves)
        if pend:
            for k, x in enumerate(leaves):
                if x in pend:
                    pend.remove(x)
                    israw[k] = True
        nraw = sum(israw)
        hdr = 3 if top in ("I", "RR", "RNR") else 2
        info = len(enc) - hdr
        cls = miu_class(link)
        if nraw:
            R.count("leaves_exempt_raw", nraw)
        if nraw == len(leaves):
            R.count("frames_exempt_raw")
        elif nraw:
            self.check_beside_raw(direction, enc, leaves, israw, link)
        else:
            R.seen("miu_values_checked", link)
            if link % 4:
                R.count("miu_not_multiple_of_4_checked")
            R.seen("miu_values_checked_agf_%s" % ("on" if self.agf[snd] else "off"), link)
            R.max("fill_permille_%s_%s" % ("agf" if top == "AGF" else "lone", cls), info * 1000 // link)
            if info == link:
                R.count("frames_at_exact_miu")
                R.count("frames_at_exact_miu_%s" % ("agf" if top == "AGF" else "lone"))
            if info > link:
                R.max("link_excess_bytes_%s" % ("agf" if top == "AGF" else "lone"), info - link)
                self.report_link(direction, enc, d, top, info, link)
        if top == "AGF":
            R.count("agf_frames")
            R.max("pdus_per_agf", len(ld))
            first_data = None
            for k, x in enumerate(ld):
                if x["t"] in ("RR", "RNR"):
                    R.count("rr_in_agf")
                elif x["t"] == "DM":
                    R.count("dm_in_agf")
                    if first_data is not None:
                        R.count("dm_behind_data_in_agf")
                elif x["t"] == "FRMR":
                    R.count("frmr_in_agf")
                elif x["t"] == "SNL":
                    R.count("snl_in_agf")
                elif x["t"] in ("CONNECT", "CC"):
                    R.count("%s_in_agf" % x["t"].lower())
                    if first_data is not None:
                        R.count("%s_behind_data_in_agf" % x["t"].lower())
                    if x["t"] == "CONNECT" and x["sn"]:
                        R.count("connect_by_name_in_agf")
                elif x["t"] in ("I", "UI") and first_data is None:
                    first_data = k
            if ld and ld[-1]["t"] in ("RR", "RNR") and len(ld) > 1:
                R.count("agf_with_trailing_ack")
            if not nraw and link - info < 8 and any(x["t"] in ("CONNECT", "CC", "DM") for x in ld[1:]):
                R.count("agf_near_full_with_connection_setup")
        where = "in-AGF" if top == "AGF" else "alone"
        for k, x in enumerate(ld):
            t = x["t"]
            R.seen("leaf_types", describe(x))
            if t == "SNL":
                R.count("snl_pdus")
                R.max("answers_per_snl", len(x["sdres"]))
                R.max("requests_per_snl", len(x["sdreq"]))
                if len(x["sdres"]) > 30:
                    R.count("snl_gt30_answers")
                if x["sdres"] and x["sdreq"]:
                    R.count("snl_answers_and_requests")
                    if link - (len(leaves[k]) - 2) < 8:
                        R.count("snl_answers_and_requests_near_full")
            elif t == "CONNECT" and x["sn"]:
                R.seen("connect_name_lengths_on_wire", len(x["sn"]))
            # payload rule (a PDU from a raw access point socket is exempt, its co-members are not)
            if t == "UI" and not israw[k]:
                R.count("ui_payload_checked")
                if len(x["data"]) > link:
                    R.violation("payload/UI>link-miu/" + where, "UI payload of %d bytes, receiver announced Link MIU %d"
                                % (len(x["data"]), link), self.case)
            elif t == "I" and not israw[k]:
                # data can overtake the CC (accepted socket is served before the listening one): the receiving
                # endpoint spoke in its CONNECT, unanswered CONNECTs of that SAP count as well
                cands = [mm for ds, mm in self.conn_pending.get((rcv, x["dsap"]), []) if ds in (x["ssap"], 1)]
                m = self.conn_miu.get((rcv, x["dsap"], x["ssap"]))
                if cands:
                    m = max(cands + [m or 0])
                if m is None:
                    R.count("i_payload_unknown_connection")
                else:
                    R.count("i_payload_checked")
                    if self.conn_ended:
                        R.count("i_payload_checked_after_a_connection_ended")
                    if (rcv, x["dsap"], x["ssap"]) in self.ended_keys:
                        R.count("i_payload_checked_on_sap_pair_connected_again")
                    if m < link:
                        R.count("i_payload_checked_connection_miu_below_link_miu")
                    R.max("i_fill_permille", len(x["data"]) * 1000 // m)
                    if len(x["data"]) > m:
                        R.violation("payload/I>connection-miu/" + where, "I payload of %d bytes, the receiving endpoint "
                                    "%d<-%d announced MIU %d" % (len(x["data"]), x["dsap"], x["ssap"], m), self.case)
                    if len(x["data"]) > link:
                        R.violation("payload/I>link-miu/" + where, "I payload of %d bytes, receiver announced Link "
                                    "MIU %d" % (len(x["data"]), link), self.case)
            # conservation, leaf by leaf in wire order (a DISC/FRMR ends the connection for what follows it)
            if t in ("I", "UI"):
                self.wire_data(snd, rcv, x, where)
            elif t in ("DISC", "FRMR"):
                self.end_event(snd, rcv, x)
            self.note_params(snd, x)
        # transparency, sender half: what collect() returned is what is on the wire
        try:
            coll = [canon(self.fields(x)) for x in self.flat(p)]
        except Exception as e:      # a collected object the adapter cannot read
            coll = None
            R.violation("transparency/encode/unreadable/%s" % exc_sig(e), "collected frame cannot be read: %r" % e, self.case)
        wire = [canon(x) for x in ld]
        if coll is not None:
            R.count("transparency_encode_compared")
            if coll != wire:
                R.violation("transparency/encode/" + self.diff_kind(coll, wire), "PDUs collected by the sender differ "
                            "from the PDUs in the encoded frame: %d collected, %d on the wire" % (len(coll), len(wire)),
                            self.case)
        self.last = (rcv, wire, top)
        self.tops.append(top)
        if not nraw and self.agf[snd]:
            try:
                self.vack_stats(snd, p, leaves, ld, top, info, link)
            except Exception as e:       # coverage code that looks at nfcpy's connection state: never a verdict
                self.monitor_failed("voluntary acknowledgement coverage", e)

    def check_beside_raw(self, direction, enc, leaves, israw, link):
        """an aggregate that carries a raw access point PDU: no other member may end beyond the Link MIU"""
        R = self.R
        mem = members(enc)
        if len(mem) != len(leaves):
            R.count("raw_aggregate_nested_skipped")
            return
        R.count("frames_with_raw_and_other_leaves")
        cum = 0
        for k, m in enumerate(mem):
            cum += 2 + len(m)
            if israw[k]:
                continue
            R.count("raw_comembers_checked")
            if cum == link:
                R.count("raw_comember_at_exact_miu")
            if cum > link:
                md = ref.decode(m)
                R.violation("link-miu/AGF/overfull-on-adding-%s/beside-raw" % describe(md), "%s aggregate with a raw "
                            "access point PDU: member %d of %d (%s, %d bytes) ends at octet %d of the information "
                            "field, receiver announced Link MIU %d" % (direction, k + 1, len(mem), describe(md), len(m),
                                                                       cum, link), self.case)
                return

    # -- coverage of the voluntary acknowledgement stage (counters only) ------------------------
    def vack_owed(self, end):
        """SAP addresses of `end` where sendack() would return an acknowledgement now (tco.py: ESTABLISHED,
        receive confirmations outstanding, V(R) != V(RA)); state inspection for coverage counters only"""
        import nfc.llcp.tco as T
        out = []
        for addr, sap in enumerate(self.lp.llc(end).sap):
            for s in getattr(sap, "sock_list", ()):
                if (isinstance(s, T.DataLinkConnection) and s.state.ESTABLISHED and s.recv_confs
                        and s.recv_cnt != s.recv_ack):
                    out.append(addr)
                    break
        return out

    def vack_stats(self, snd, p, leaves, ld, top, info, link):
        """called after the sender's collect(): which leaves are voluntary acknowledgements (objects returned by
        sendack() in this turn), how many are still owed, how much room the acknowledgement loop found"""
        R = self.R
        objs = self.flat(p)
        if len(objs) != len(leaves):
            return
        isv = [any(o is v for v in _VACKS) for o in objs]
        nv = sum(isv)
        owed_after = self.vack_owed(snd)
        if nv + len(owed_after) == 0:
            return
        others = [k for k, v in enumerate(isv) if not v]
        behind = bool(others) and nv > 0 and others[0] == 0
        free_end = link - info if top == "AGF" else link - (2 + len(leaves[0]))
        R.count("vack_pdus", nv)
        if nv:
            R.count("frames_with_vack")
            R.max("vacks_per_frame", nv)
            R.count("vack_rnr", sum(1 for k, v in enumerate(isv) if v and ld[k]["t"] == "RNR"))
        if top == "AGF" and nv:
            R.count("agf_with_vack")
            if behind:
                R.count("agf_vack_behind_other")
            if nv >= 2 and behind:
                R.count("agf_2plus_vack_behind_other")
            if info == link:
                R.count("frames_at_exact_miu_agf_with_vack")
            kinds = set(ld[k]["t"] for k in others)
            if kinds & {"RR", "RNR"}:
                R.count("agf_vack_with_other_ack")          # necessary or busy-change acknowledgement
            if kinds & {"DM", "SNL"}:
                R.count("agf_vack_with_dm_or_snl")
            if kinds & {"I"}:
                R.count("agf_vack_with_i")
            if kinds & {"UI"}:
                R.count("agf_vack_with_ui")
        # room the acknowledgement loop found: octets left for the information field of a PDU with a 3 octet header
        # once everything else was collected, in a turn where at least two acknowledgements were owed
        if others and nv + len(owed_after) >= 2:
            room = link - sum(2 + len(leaves[k]) for k in others) - 5
            R.seen("vack_rooms", max(-20, min(room, 80)))
            R.count("vack_room_%02d" % room if 0 <= room <= 12 else "vack_room_neg" if room < 0 else "vack_room_gt12")
            R.max("vack_owed_with_other_pdus", nv + len(owed_after))
        # the loop ended because the frame was full although an access point further on still owes one
        last = max([ld[k]["ssap"] for k, v in enumerate(isv) if v] or [-1])
        further = [a for a in owed_after if a > last]
        if further and others and free_end < 5:
            if nv:
                R.count("vack_loop_stopped_free_%d" % max(free_end, -1))
            else:
                R.count("vack_loop_not_entered_free_%d" % max(free_end, -1))

    def report_link(self, direction, enc, d, top, info, link):
        sig = "link-miu/" + (describe(d) if top != "AGF" else "AGF")
        extra = ""
        if top == "AGF":
            # the member whose addition made (or left) the aggregate larger than the limit: the first member is
            # put in unconditionally (alone it would be a legal frame), so blame starts with member 2
            cum = 0
            mem = members(enc)
            if len(mem) < 2:
                sig += "/single-member"
            for k, m in enumerate(mem):
                cum += 2 + len(m)
                if cum > link and k >= 1:
                    md = ref.decode(m)
                    sig += "/overfull-on-adding-" + describe(md)
                    if describe(md) == "SNL.sdres" and cum - link < 4:
                        sig += "/partial-last-sdres"
                    extra = "; member %d of %d (%s, %d bytes) was added with %d bytes of members already there" % (
                        k + 1, len(mem), describe(md), len(m), cum - 2 - len(m))
                    break
        elif describe(d) == "SNL.sdres" and info - link < 4:
            sig += "/partial-last-sdres"
        self.R.violation(sig, "%s frame %s with an information field of %d bytes, receiver announced Link MIU %d%s; "
                         "frame %s..." % (direction, top, info, link, extra, enc.hex()[:48]), self.case)

    @staticmethod
    def diff_kind(a, b):
        if len(b) < len(a):
            return "dropped"
        if len(b) > len(a):
            return "extra"
        if sorted(a) == sorted(b):
            return "reordered"
        return "altered"

    # -- one link turn -------------------------------------------------------------------------
    def turn(self, src):
        """collect() at src -> encode -> [wire observer] -> decode -> dispatch() at the other end.  An exception of
        nfcpy is a verdict (Judged), one of the observers makes the run inconclusive (MonitorError)."""
        R = self.R
        rcv = "B" if src == "A" else "A"
        if self.failed:
            raise MonitorError()
        self.active, self.rx, self.last = rcv, [], None
        del _VACKS[:]
        s, d = self.lp.llc(src), self.lp.llc(rcv)
        try:
            try:
                p = s.collect()
            except self.Contract:
                raise
            except Exception as e:
                R.violation("transparency/collect-raises/%s" % exc_sig(e), "collect() of the sender raised %r: what it "
                            "had dequeued so far is lost" % e, self.case)
                raise Judged(e)
            if p is None:
                return None
            try:
                enc = self.P.encode(p)
            except self.Contract:
                raise
            except Exception as e:
                R.violation("transparency/encode-raises/%s" % exc_sig(e), "the frame the sender collected cannot be "
                            "encoded: %r" % e, self.case)
                raise Judged(e)
            try:
                self.on_frame("A>B" if src == "A" else "B>A", bytes(enc), p)
            except Exception as e:
                self.monitor_failed("wire observer", e)
            if self.failed:
                raise MonitorError()
            try:
                d.dispatch(self.P.decode(enc))
            except self.Contract:
                raise
            except Exception as e:
                if self.failed:
                    raise MonitorError()
                if self.last is not None:
                    R.violation("transparency/receive-raises/%s" % exc_sig(e), "the receiver raised %r on a frame the "
                                "sender collected (%s)" % (e, self.last[2]), self.case)
                raise Judged(e)
            if self.failed:
                raise MonitorError()
        finally:
            self.active = None
        if self.last is None:
            return p
        _, wire, top = self.last
        try:
            got = [canon(self.fields(x)) for x in self.rx]
        except Exception as e:
            self.monitor_failed("dispatch comparison", e)
            raise MonitorError()
        R.count("transparency_compared")
        R.count("transparency_leaves", len(wire))
        if top == "AGF":
            R.count("transparency_compared_agf")
        if got != wire:
            R.violation("transparency/dispatch/" + self.diff_kind(wire, got), "receiver dispatched %d leaf PDUs, the "
                        "frame carried %d (%s)" % (len(got), len(wire), top), self.case)
        return p


# ---------------------------------------------------------------------------------------------
def payload(k, n):
    """n bytes that identify send number k"""
    head = struct.pack(">I", k & 0xFFFFFFFF)
    return (head + bytes([k & 255]) * n)[:n]


def name_of(k, n):
    """service name of exactly n bytes, distinct for distinct k as far as n allows"""
    alpha = b"abcdefghijklmnopqrstuvwxyzABCDEFGHIJKLMNOPQRSTUVWXYZ0123456789"
    out = bytearray()
    k += 1
    while k and len(out) < n:
        out.append(alpha[k % 62])
        k //= 62
    return bytes(out + b"." * (n - len(out)))


class History:
    """executes a case (dict) on a fresh pair; every blocking socket call runs in a helper thread"""

    def __init__(self, case, R):
        import nfc.llcp
        import nfc.llcp.pdu as P
        from vf.sim import llcpair
        self.nfc, self.P, self.llcpair, self.R, self.case = nfc, P, llcpair, R, case
        random.seed(case["rseed"])        # nfcpy draws service discovery transaction ids from the global PRNG
        self.lp = llcpair.LockstepPair(opts_a={"miu": case["miu_a"], "agf": bool(case["agf_a"])},
                                       opts_b={"miu": case["miu_b"], "agf": bool(case["agf_b"])})
        self.lp.keep_wire = False
        self.mon = Monitor(R, self.lp, case)
        self.socks = {"A": [], "B": []}      # [kind, Socket]
        self.threads = []
        self.pending = []                    # connect() calls in helper threads: [end, socket, thread, result, how]
        self.sendno = 0
        self.aborted = None
        self.quiescent = False

    # -- helpers -------------------------------------------------------------------------------
    def llc(self, end):
        return self.lp.llc(end)

    def pick(self, end, kinds, i):
        c = [s for k, s in self.socks[end] if k in kinds]
        return c[i % len(c)] if c else None

    def api(self, fn, *a):
        try:
            return fn(*a)
        except self.nfc.llcp.Error as e:
            self.R.count("api_error_%s" % self.nfc.llcp.errno.errorcode.get(e.errno, e.errno))
        except Exception as e:
            self.R.count("api_other_exception")
            self.R.seen("api_other_exceptions", exc_sig(e))
        return None

    def pump(self, n=1):
        c = 0
        for _ in range(n):
            c += self.mon.turn("A") is not None
            if self.pending:
                self.settle()
            c += self.mon.turn("B") is not None
            if self.pending:
                self.settle()
        return c

    def spawn(self, fn, ready, limit=4000):
        th = threading.Thread(target=fn, daemon=True)
        th.start()
        self.threads.append(th)
        for _ in range(limit):
            if ready() or not th.is_alive():
                return True
            time.sleep(0.0002)
        self.R.count("helper_not_ready")
        return False

    def settle(self):
        """connect() calls whose answer (CC/DM) has been dispatched: let the helper thread take it before the next
        link turn, so that the state of the socket does not depend on thread scheduling (steers the workload and
        reads the socket's queue for that; when the thread does not get there in time nothing that depends on it
        is judged in this history)"""
        for ent in list(self.pending):
            end, s, th, res, how = ent
            if th.is_alive():
                try:
                    tco = s._tco
                    answered = bool(len(tco.recv_queue) or not tco.state.CONNECT)
                except Exception:
                    answered = False
                if answered:
                    for _ in range(10000):
                        if not th.is_alive():
                            break
                        time.sleep(0.0002)
                    else:
                        self.R.count("helper_not_settled")
                        self.R.seen("helper_not_settled_states", "%s %d %s" % (tco.state, len(tco.recv_queue), how))
                        self.mon.tainted = True
            if not th.is_alive():
                self.pending.remove(ent)
                self.connect_done(ent)

    def connect_done(self, ent):
        end, s, th, res, how = ent
        R = self.R
        self.mon.connecting.discard((end, s.getsockname()))
        if res.get("ok"):
            R.count("mid_connect_established")
            R.count("mid_connect_established_" + how)
            self.mon.register(end, s, s.getsockname(), s.getpeername())
        else:
            if "refused" in res:
                R.count("mid_connect_refused")
                R.count("mid_connect_refused_" + how)
                R.seen("mid_connect_refusal_reasons", res["refused"])
            else:
                R.count("mid_connect_failed")
                R.seen("mid_connect_failures", repr(res.get("err"))[:80])
            for e in self.socks[end]:
                if e[1] is s:
                    e[0] = "idle"         # a bound, unconnected data link connection socket

    def inject(self, end, d):
        """a PDU the peer of `end` sent, handed straight to the controller (bytes built by the reference encoder)"""
        other = "B" if end == "A" else "A"
        enc = ref.encode(d)
        self.mon.note_params(other, d, virtual=True)
        self.mon.injected(end, d)
        self.R.count("peer_pdus_injected")
        try:
            self.llc(end).dispatch(self.P.decode(enc))
        except self.mon.Contract:
            raise
        except Exception as e:
            # a well-formed PDU of the (virtual) peer: same verdict as for a frame the other controller sent
            self.R.violation("transparency/receive-raises/injected-%s/%s" % (d["t"], exc_sig(e)), "the receiver raised "
                             "%r on a well-formed %s PDU of its peer" % (e, d["t"]), self.case)
            raise Judged(e)
        return len(enc) - 2

    # -- set-up --------------------------------------------------------------------------------
    def setup(self, st):
        nfc, lp = self.nfc, self.lp
        k = st[0]
        if k == "conn":
            _, cend, addr, cmiu, crw, smiu, srw = st
            send = "B" if cend == "A" else "A"
            lp.pump, lp_pump = (lambda n=1: self.pump(n)), lp.pump     # connection set-up frames are monitored too
            try:
                cli, acc, srv = self.llcpair.lockstep_connect(lp, cend, addr, {"miu": cmiu, "rw": crw},
                                                              {"miu": smiu, "rw": srw})
            finally:
                lp.pump = lp_pump
            self.socks[cend].append(["dlc", cli])
            self.socks[send].append(["dlc", acc])
            self.socks[send].append(["listen", srv])
            self.mon.register(cend, cli, cli.getsockname(), cli.getpeername())
            self.mon.register(send, acc, acc.getsockname(), acc.getpeername())
            self.R.count("connections_established")
        elif k in ("ldl", "raw", "idle"):
            _, end = st
            typ = {"ldl": nfc.llcp.LOGICAL_DATA_LINK, "raw": nfc.llcp.llc.RAW_ACCESS_POINT,
                   "idle": nfc.llcp.DATA_LINK_CONNECTION}[k]
            s = nfc.llcp.Socket(self.llc(end), typ)
            s.bind()
            self.socks[end].append([k, s])
        elif k == "listen":
            _, end, addr, miu, rw, backlog = st
            s = nfc.llcp.Socket(self.llc(end), nfc.llcp.DATA_LINK_CONNECTION)
            s.setsockopt(nfc.llcp.SO_RCVMIU, miu)
            s.setsockopt(nfc.llcp.SO_RCVBUF, rw)
            if isinstance(addr, str):              # a service name
                name = addr.encode("latin-1")
                s.bind(name)
                self.mon.names[end][name] = s.getsockname()
                self.R.count("listening_sockets_bound_by_name")
                self.R.seen("bound_name_lengths", len(name))
            else:
                s.bind(addr)
            s.listen(backlog)
            self.socks[end].append(["listen", s])
        self.R.count("sockets_created")

    # -- operations ----------------------------------------------------------------------------
    def size(self, spec, limit):
        kind, v = spec
        if kind == "max":
            return max(0, limit - v)
        if kind == "over":
            return limit + v
        if kind == "upto":            # at most v octets, otherwise the allowed maximum
            return max(0, min(v, limit))
        return min(v, limit)

    def read_all(self, end, kind, s, n):
        """read up to n messages from a socket of the harness and tell the monitor what the application got"""
        R = self.R
        for _ in range(n):
            if not self.api(s.poll, "recv", 0):
                break
            if kind == "ldl":
                r = self.api(s.recvfrom)
                if r is not None and r[0] is not None:
                    self.mon.received(end, s, "UI", r[0], r[1])
            else:
                r = self.api(s.recv)
                if r is not None and kind == "dlc":
                    self.mon.received(end, s, "I", r)
            R.count("messages_received")

    def op(self, o):
        nfc, R = self.nfc, self.R
        k = o[0]
        DW = nfc.llcp.MSG_DONTWAIT
        if k == "pump":
            self.pump(o[1])
        elif k == "send":
            _, end, i, spec = o
            s = self.pick(end, ("dlc",), i)
            if s is None:
                return
            lim = self.api(s.getsockopt, nfc.llcp.SO_SNDMIU)
            if lim is None:
                return
            self.sendno += 1
            data = payload(self.sendno, self.size(spec, lim))
            if self.api(s.send, data, DW):
                R.count("dlc_sends_queued")
                self.mon.accepted(end, s, "I", data)
            elif spec[0] == "over" and len(data) <= self.mon.announced["B" if end == "A" else "A"]:
                R.count("dlc_send_above_connection_miu_within_link_miu_not_accepted")
        elif k == "sendto":
            _, end, i, dsap, spec = o
            s = self.pick(end, ("ldl",), i)
            if s is None:
                return
            lim = self.api(s.getsockopt, nfc.llcp.SO_SNDMIU)
            if lim is None:
                return
            self.sendno += 1
            data = payload(self.sendno, self.size(spec, lim))
            if self.api(s.sendto, data, dsap, DW):
                R.count("ldl_sends_queued")
                self.mon.accepted(end, s, "UI", data, dsap=dsap, ssap=s.getsockname())
        elif k == "rawsend":
            _, end, i, dsap, n = o
            s = self.pick(end, ("raw",), i)
            if s is None:
                return
            self.sendno += 1
            data = payload(self.sendno, n)
            pdu = self.P.UnnumberedInformation(dsap, s.getsockname(), data)
            self.mon.raw_pending[end].append(self.P.encode(pdu))
            if self.api(s.send, pdu, DW):
                R.count("raw_sends_queued")
                self.mon.accepted(end, s, "UI", data, dsap=dsap, ssap=s.getsockname())
        elif k == "drain":
            _, end = o
            for kind, s in list(self.socks[end]):
                if kind in ("dlc", "ldl", "raw"):
                    self.read_all(end, kind, s, 16)
        elif k == "recvn":
            _, end, i, n = o
            s = self.pick(end, ("dlc",), i)
            if s is not None:
                self.read_all(end, "dlc", s, n)
        elif k == "snl":
            _, end, n, lmin, lmax, sd = o
            r = random.Random(sd)
            req = [(j & 255, name_of(j, r.randint(lmin, lmax))) for j in range(n)]
            info = self.inject(end, {"t": "SNL", "dsap": 1, "ssap": 1, "sdreq": req, "sdres": []})
            R.count("sdreq_injected", n)
            R.max("sdreq_per_injected_snl", n)
            R.count("snl_injected_within_receiver_miu" if info <= self.mon.announced[end] else "snl_injected_oversize")
        elif k == "resolve":
            _, end, n, j = o
            llc = self.llc(end)
            name = name_of(1000 + j, n)
            before = len(llc.sap[1].sdreq) if llc.sap[1] else 0

            def work():
                try:
                    llc.resolve(name)
                except Exception:
                    pass
            self.spawn(work, lambda: llc.sap[1] is None or len(llc.sap[1].sdreq) > before)
            R.count("resolve_calls")
            R.seen("resolve_name_lengths", n)
        elif k == "cinj":
            _, end, sel, ssap, miu, rw, sn = o
            if sel[0] == "sock":
                s = self.pick(end, tuple(sel[1]), sel[2])
                if s is None:
                    return
                dsap = s.getsockname()
                if dsap is None:
                    return
            else:
                dsap = sel[1]
            d = {"t": "CONNECT", "dsap": dsap, "ssap": ssap, "miu": miu, "rw": rw, "sn": sn}
            self.inject(end, d)
            R.count("connect_injected")
        elif k == "accept":
            _, end = o
            for kind, s in list(self.socks[end]):
                if kind == "listen" and self.llcpair.has_pending_connect(self.llc(end), s):
                    c = self.api(s.accept)
                    if c is not None:
                        self.socks[end].append(["dlc", c])
                        self.mon.register(end, c, c.getsockname(), c.getpeername())
                        R.count("accepted_injected_connect")
        elif k == "pinj":
            _, end, i, t, dns, nr, n = o
            # (a UI addressed to an established connection is left out: the receiving controller then blocks
            #  inside its own dispatch, waiting for the DM of the close() it starts - not this property's business)
            s = self.pick(end, ("idle", "ldl") if t == "UI" else ("dlc", "idle", "ldl"), i)
            if s is None:
                return
            a, b = s.getsockname(), s.getpeername()
            if a is None:
                return
            if b is None:
                b = 33
            d = {"t": t, "dsap": a, "ssap": b}
            if t == "I":
                tco = s._tco
                ns = ((getattr(tco, "recv_cnt", 0) or 0) + dns) % 16
                d.update(ns=ns, nr=nr, data=payload(7, n))
            elif t in ("RR", "RNR"):
                d.update(nr=nr)
            elif t == "DM":
                d.update(reason=nr)
            elif t == "UI":
                d.update(data=payload(8, n))
            elif t == "FRMR":
                d.update(rej_flags=4, rej_ptype=12, ns=0, nr=0, vs=0, vr=0, vsa=0, vra=0)
            self.inject(end, d)
            R.count("peer_%s_injected" % t)
        elif k == "bsy":
            _, end, i, flag = o
            s = self.pick(end, ("dlc",), i)
            if s is not None:
                self.api(s.setsockopt, nfc.llcp.SO_RCVBSY, flag)
        elif k == "close":
            _, end, i = o
            s = self.pick(end, ("dlc",), i)
            if s is None:
                return
            self.close_socket(s)
        elif k == "setup":
            # a socket / a connection created while the history runs (same descriptors as the initial set-up)
            try:
                self.setup(o[1])
                R.count("mid_history_setups")
                R.count("mid_history_setup_" + o[1][0])
            except self.nfc.llcp.Error as e:
                R.count("mid_history_setup_error_%s" % self.nfc.llcp.errno.errorcode.get(e.errno, e.errno))
            except RuntimeError as e:
                if "CONNECT never arrived" not in str(e) and "connect() did not return" not in str(e):
                    raise
                R.count("mid_history_setup_starved")
        elif k == "connect":
            # connect() of a new data link connection socket while the queues are in use
            _, end, dest, miu, rw, baddr = o
            self.connect(end, dest, miu, rw, baddr)
        elif k == "reconnect":
            # close a connection of the harness and connect again from the same local SAP to the same remote SAP,
            # announcing another MIU
            _, end, i, miu, rw = o
            s = self.pick(end, ("dlc",), i)
            if s is None:
                return
            addr, peer = s.getsockname(), s.getpeername()
            if addr is None or peer is None:
                return
            th = self.close_socket(s)
            for _ in range(10):
                if not th.is_alive():
                    break
                self.pump(1)
                th.join(0.002)
            th.join(0.05)
            for e in self.socks[end]:
                if e[1] is s:
                    e[0] = "closed"
            if th.is_alive():
                R.count("reconnect_close_not_finished")      # the DM never came: the SAP is still in use
                return
            if self.connect(end, peer, miu, rw, addr):
                R.count("reconnect_calls")

    def close_socket(self, s):
        tco = s._tco
        # let queued data go out first (queue inspection only steers the workload)
        for _ in range(8):
            if not any(getattr(q, "name", "") == "I" for q in list(tco.send_queue)):
                break
            self.pump(1)

        def work():
            try:
                s.close()
            except Exception:
                pass
        self.mon.local_close(None, s)
        self.spawn(work, lambda: not tco.state.ESTABLISHED)
        self.R.count("close_calls")
        return self.threads[-1]

    def connect(self, end, dest, miu, rw, baddr):
        nfc, R = self.nfc, self.R
        try:
            s = nfc.llcp.Socket(self.llc(end), nfc.llcp.DATA_LINK_CONNECTION)
            s.setsockopt(nfc.llcp.SO_RCVMIU, miu)
            s.setsockopt(nfc.llcp.SO_RCVBUF, rw)
            s.bind(baddr)
        except nfc.llcp.Error as e:
            R.count("mid_connect_bind_error_%s" % nfc.llcp.errno.errorcode.get(e.errno, e.errno))
            return False
        how = "by_name" if isinstance(dest, str) else "by_addr"
        dst = dest.encode("latin-1") if isinstance(dest, str) else dest
        res = {}

        def work():
            try:
                s.connect(dst)
                res["ok"] = True
            except nfc.llcp.ConnectRefused as e:
                res["refused"] = e.reason
            except Exception as e:
                res["err"] = e
        tco = s._tco
        self.spawn(work, lambda: bool(res) or len(tco.send_queue) > 0 or not tco.state.CLOSED)
        self.socks[end].append(["dlc", s])
        self.mon.connecting.add((end, s.getsockname()))
        self.pending.append([end, s, self.threads[-1], res, how])
        R.count("mid_connect_calls")
        R.count("mid_connect_calls_" + how)
        if how == "by_name":
            R.seen("connect_name_lengths", len(dst))
        R.count("sockets_created")
        return True

    # -- whole history -------------------------------------------------------------------------
    def run(self):
        R = self.R
        if not (self.lp.ok_a and self.lp.ok_b):
            R.inconc("link activation failed")
            return False
        try:
            for st in self.case["setup"]:
                self.setup(st)
        except (MonitorError, Judged) as e:
            self.aborted = e
            self.finish()
            return self.mon.frames > 0
        except Exception as e:
            self.aborted = e
            R.count("setup_failed")
            R.seen("setup_failures", exc_sig(e) + " " + repr(e)[:80])
            self.finish()
            return False
        R.max("sockets_per_history", sum(len(v) for v in self.socks.values()))
        try:
            for o in self.case["ops"]:
                self.op(o)
            # run the queues dry: alternate turns, keep the receive windows open
            idle = dm_only = 0
            for _ in range(self.case.get("tail", 300)):
                self.mon.tops = []
                sent = self.pump(1)
                self.op(["drain", "A"])
                self.op(["drain", "B"])
                idle = idle + 1 if sent == 0 else 0
                if idle >= 3:
                    self.quiescent = True
                    break
                # two nfcpy stacks answer each other's DM with a DM for ever (inactive socket on both sides):
                # nothing new to see, stop there
                dm_only = dm_only + 1 if self.mon.tops == ["DM", "DM"] else 0
                if dm_only >= 4:
                    R.count("tail_cut_dm_ping_pong")
                    break
            else:
                R.count("tail_not_quiescent")
            if self.quiescent:
                R.count("histories_quiescent")
        except MonitorError as e:
            self.aborted = e
            R.count("history_stopped_monitor_error")
        except Judged as e:
            self.aborted = e.orig
            R.count("history_stopped_after_verdict")
        except Exception as e:
            self.aborted = e
            if isinstance(e, self.mon.Contract):
                R.count("history_aborted")           # reported as len/... by run()
            else:
                # nothing of nfcpy raises here any more (socket calls go through api(), link turns through
                # Monitor.turn): this is a defect of the harness and must not pass as coverage
                R.count("history_aborted")
                R.seen("history_aborts", here_sig(e) + " " + repr(e)[:80])
                R.inconc("the harness failed while running a history: %s %s" % (here_sig(e), repr(e)[:200]))
        try:
            self.mon.final_checks(self.quiescent and self.aborted is None)
        except Exception as e:
            self.mon.monitor_failed("final checks", e)
        self.finish()
        return self.mon.frames > 0

    def finish(self):
        for end in ("A", "B"):
            _ENQ_HOOKS.pop(id(self.llc(end)), None)
            try:
                self.llc(end).terminate(reason="end of history")
            except Exception as e:
                self.R.seen("terminate_failures", exc_sig(e))
        t0 = time.time()
        for th in self.threads:
            th.join(max(0.0, 2.0 - (time.time() - t0)))
            if th.is_alive():
                self.R.count("helper_threads_left")


# ---------------------------------------------------------------------------------------------
def near(rng):
    """message size relative to the allowed maximum"""
    return rng.choice([["max", 0], ["max", 0], ["max", rng.randrange(0, 12)], ["max", rng.randrange(0, 12)],
                       ["max", rng.randrange(0, 40)], ["abs", rng.randrange(0, 20)], ["abs", rng.randrange(0, 2200)],
                       ["over", 1]])


def some_miu(rng):
    return rng.choice([128, 2175, 2175, rng.choice(SPECIAL), rng.randrange(128, 2176)])


def gen_vack(rng, case):
    """A owes voluntary acknowledgements on n = 2..6 connections while a leading PDU nearly fills the frame.

    One history is a run of consecutive rounds; round r uses a leading PDU of Link MIU - x octets with x stepping by
    one through 0..60 (start and direction drawn), so that whatever else is due in the same turn (acknowledgements
    with 5 octets, DM with 5, SNL answers, a second data PDU) every remainder of room is met.  Per round: B sends
    1..RW I PDUs on some connections, the link turns until they arrived, A's application reads all or some of them
    (read and window not exhausted: voluntary acknowledgement owed; window exhausted: necessary acknowledgement),
    optionally DM/SNL/RNR/second data PDU become due at A, A queues the leading PDU, one link turn."""
    link = case["miu_b"]
    case["agf_b"] = 1 if rng.random() < 0.75 else 0
    n = rng.randrange(2, 7)
    setup, ops = [], []
    setup.append(["ldl", "B"])                       # SAP 32 of B: destination of A's UI PDUs
    a_ldl_first = rng.random() < 0.5                 # below or above A's client connection SAPs in collect() order
    if a_ldl_first:
        setup.append(["ldl", "A"])
    rws = []
    for i in range(n):
        rw = rng.choice([2, 2, 3, 4, 15, rng.randrange(2, 16)])
        amiu = some_miu(rng)
        bmiu = rng.choice([2175, link, link, some_miu(rng)])
        brw = rng.choice([1, 2, 15, rng.randrange(1, 16)])
        rws.append(rw)
        if rng.random() < 0.5:
            setup.append(["conn", "A", 63 - i, amiu, rw, bmiu, brw])
        else:
            setup.append(["conn", "B", 63 - i, bmiu, brw, amiu, rw])
    lead_conn = None
    if rng.random() < 0.6:                           # a connection of its own for a leading I PDU
        lead_conn = n
        st = ["conn", rng.choice("AB"), 63 - n, some_miu(rng), 15, rng.choice([2175, link]), 15]
        if st[1] == "B":
            st[3], st[5] = st[5], st[3]
        setup.append(st)
    if not a_ldl_first:
        setup.append(["ldl", "A"])
    if rng.random() < 0.7:
        setup.append(["idle", "A"])
    case["setup"] = setup
    x = rng.randrange(VACK_SWEEP)
    step = rng.choice([1, 1, -1])
    for _ in range(rng.randrange(10, 22)):
        # -- B -> A data
        if rng.random() < 0.6:
            conns = list(range(n))
        else:
            conns = rng.sample(range(n), rng.randrange(2, n + 1))
        total = 0
        for j in conns:
            k = rng.choice([1, 1, 1, 2, 2, rws[j] - 1, rws[j], rng.randrange(1, rws[j] + 1)])
            k = min(k, 5)
            total += k
            for _ in range(k):
                ops.append(["send", "B", j, ["abs", rng.randrange(1, 24)]])
        ops.append(["pump", 1 + (total // 3 if case["agf_b"] else total)])
        # -- A's application reads
        if rng.random() < 0.65:
            ops.append(["drain", "A"])
        else:
            for j in conns:
                ops.append(["recvn", "A", j, rng.choice([1, 1, 2, 15])])
        # -- other things due at A in the same turn
        c = rng.random()
        if c < 0.18:
            for _ in range(rng.randrange(1, 4)):
                ops.append(["cinj", "A", ["sock", ["ldl", "idle"], rng.randrange(3)],
                            (44, 45, 46, 47, 48, 49, 51, 52, 53, 54, 55, 56)[len(ops) % 12], some_miu(rng),
                            rng.randrange(16), None])
        elif c < 0.30:
            ops.append(["cinj", "A", ["sap", rng.choice([1, rng.randrange(2, 31)])],
                        (44, 45, 46, 47, 48, 49, 51, 52, 53, 54, 55, 56)[len(ops) % 12], some_miu(rng),
                        rng.randrange(16), None])
        elif c < 0.42:
            lmin = rng.choice([1, 1, 5])
            ops.append(["snl", "A", rng.randrange(1, 6), lmin, max(lmin, rng.choice([lmin, 4, 12])),
                        rng.randrange(1 << 20)])
        elif c < 0.50:
            ops.append(["bsy", "A", rng.randrange(n), rng.randrange(2)])
        elif c < 0.60:
            ops.append(rng.choice([["send", "A", rng.randrange(n + 1), ["abs", rng.randrange(0, 12)]],
                                   ["sendto", "A", 0, 32, ["abs", rng.randrange(0, 12)]]]))
        # -- the leading PDU: Link MIU - x octets of data (the socket's own limit may be lower)
        big = ["abs", link - x]
        c = rng.random()
        if c < 0.45:
            ops.append(["sendto", "A", 0, 32, big])
        elif c < 0.85 and lead_conn is not None:
            ops.append(["send", "A", lead_conn, big])
        else:
            ops.append(["send", "A", rng.randrange(n), big])      # piggybacks that connection's acknowledgement
        ops.append(["pump", 1])
        if rng.random() < 0.8:
            ops.append(["drain", "B"])
        x = (x + step) % VACK_SWEEP
    case["ops"] = ops
    return case


def sn_of(k, n):
    """well-formed service name (bindable) of exactly n >= 12 octets, distinct for distinct k"""
    return "urn:nfc:sn:" + "s" + name_of(k, n - 12).decode("latin-1").replace(".", "-")


def connect_info(miu, rw, name):
    """information field of the CONNECT PDU nfcpy builds for these socket options (MIUX/RW TLVs only when they are
    not the default, SN TLV for connect-by-name) - used to aim the size of the data in front of it, not by an oracle"""
    return (4 if miu != 128 else 0) + (3 if rw != 1 else 0) + ((2 + len(name)) if isinstance(name, str) else 0)


def gen_conn(rng, case):
    """connection set-up while the queues are in use: CONNECT (by address, by names of 1..200 octets), CC and DM
    (refused) PDUs become due at the sender this job aims at (A, sometimes B) together with a data PDU that leaves
    -4..+4 octets around what the set-up PDU needs in the aggregate (or, without aggregation, fills the frame); new
    sockets and connections appear while the history runs; a connection is closed and made again from the same SAP
    pair with another MIU and then used up to its new limit; a raw access point socket adds PDUs that are exempt
    beside members that are not."""
    link = {"A": case["miu_b"], "B": case["miu_a"]}        # what an end may send
    setup, ops = [], []
    ends = ("A", "B")
    other = {"A": "B", "B": "A"}
    listen = {"A": [], "B": []}          # [dest (int or str), connect-info size without the options]
    # connection-less sockets first: SAP 32 carries the leading UI PDU and lies in front of every client socket
    ldl_first = {e: rng.random() < 0.7 for e in ends}
    for e in ends:
        if ldl_first[e]:
            setup.append(["ldl", e])
    # services: by address above the data SAPs, by name (SAP 16..31) below them
    for e in ends:
        for i in range(rng.choice([1, 1, 2, 3])):
            addr = 40 + i
            setup.append(["listen", e, addr, some_miu(rng), rng.choice([0, 1, 1, 2, 15]), rng.choice([1, 2, 4, 16])])
            listen[e].append(addr)
        for i in range(rng.choice([1, 2, 2, 4])):
            n = rng.choice([12, 13, 16, 30, 60, 100, 119, 120, 150, 199, 200, rng.randrange(12, 201)])
            name = sn_of(rng.randrange(1000) * 8 + i, n)
            if name in listen[e]:
                continue
            setup.append(["listen", e, name, some_miu(rng), rng.choice([0, 1, 1, 2, 15]), rng.choice([1, 2, 4])])
            listen[e].append(name)
    # one or two connections that exist from the start (leading I PDUs, data on both sides)
    base = []
    for i in range(rng.choice([1, 1, 2])):
        cend = rng.choice(ends)
        lo = rng.random() < 0.5
        cmiu, smiu = some_miu(rng), some_miu(rng)
        if lo:                             # connection MIU below the Link MIU: sends between the two must be refused
            cmiu, smiu = rng.choice([128, 128, 129, 140]), rng.choice([128, 128, 131, 200])
        setup.append(["conn", cend, 60 + i, cmiu, rng.choice([1, 2, 4, 15]), smiu, rng.choice([1, 2, 4, 15])])
        base.append(cend)
    for e in ends:
        if not ldl_first[e]:
            setup.append(["ldl", e])
        if rng.random() < 0.5:
            setup.append(["idle", e])
    raw = {e: rng.random() < (0.35 if e == "A" else 0.1) for e in ends}
    for e in ends:
        if raw[e]:
            setup.append(["raw", e])
    case["setup"] = setup
    unbound = 0
    reconnected = False
    nrounds = rng.randrange(5, 12)
    recon_at = rng.randrange(1, nrounds - 1) if rng.random() < 0.7 else -1
    for rnd in range(nrounds):
        e = "A" if rng.random() < 0.75 else "B"
        p = other[e]
        lim = link[e]
        due = []                            # sizes (as aggregate members: 2 + PDU) of what e will have to send
        # -- the peer asked for connections earlier: CC for those that found a listening socket
        if rng.random() < 0.6:
            ops.append(["accept", e])
        # -- e asks for connections
        for _ in range(rng.choice([0, 1, 1, 2, 2])):
            c = rng.random()
            miu, rw = rng.choice([128, 128, some_miu(rng)]), rng.choice([1, 1, 0, 2, 15])
            if c < 0.30 and listen[p]:
                dest = rng.choice([d for d in listen[p] if isinstance(d, int)])
            elif c < 0.65:
                cand = [d for d in listen[p] if isinstance(d, str) and connect_info(miu, rw, d) <= lim]
                if not cand:
                    continue
                dest = rng.choice(cand)
            elif c < 0.85:
                # a name nobody bound (any octets, 1..200): refused with a DM from the service discovery SAP
                n = rng.choice([1, 2, 11, 12, 40, 100, 150, 200, rng.randrange(1, 201)])
                n = max(1, min(n, lim - 9))
                unbound += 1
                dest = name_of(5000 + unbound, n).decode("latin-1")
            else:
                dest = 32 + rng.randrange(3)          # a SAP without a listening socket: refused (if it exists)
            ops.append(["connect", e, dest, miu, rw, None])
            due.append(4 + connect_info(miu, rw, dest))
        # -- the peer asks e (the CONNECT arrives with the peer's turn; CC / DM are due at e in a later round)
        for _ in range(rng.choice([0, 0, 1, 1])):
            c = rng.random()
            miu, rw = rng.choice([128, some_miu(rng)]), rng.choice([1, 0, 2, 15])
            if c < 0.4:
                dest = rng.choice(listen[e])
                if isinstance(dest, str) and connect_info(miu, rw, dest) > link[p]:
                    continue
            elif c < 0.7:
                unbound += 1
                dest = name_of(5000 + unbound, max(1, min(rng.choice([1, 5, 30, 100, 200]), link[p] - 9))).decode("latin-1")
            else:
                dest = 32 + rng.randrange(4)
            ops.append(["connect", p, dest, miu, rw, None])
        # -- sockets and connections that appear while the history runs
        c = rng.random()
        if c < 0.10:
            ops.append(["setup", ["ldl", rng.choice(ends)]])
        elif c < 0.16:
            ops.append(["setup", ["listen", rng.choice(ends), 48 + rnd, some_miu(rng), rng.choice([1, 2, 15]), 2]])
        elif c < 0.22:
            ops.append(["setup", ["conn", rng.choice(ends), 50 + (rnd % 8), some_miu(rng),
                                  rng.choice([1, 2, 15]), some_miu(rng), rng.choice([1, 2, 15])]])
        # -- close a connection and make it again from the same SAP pair with another MIU
        if rnd == recon_at and base:
            i = rng.randrange(len(base))
            old = setup[[k for k, st in enumerate(setup) if st[0] == "conn"][i]]
            new_miu = rng.choice([128, 128, 129, 200, 2175, max(128, min(old[3], old[5]) - rng.randrange(1, 60))])
            ops.append(["reconnect", base[i], i, new_miu, rng.choice([1, 2, 15])])
            ops.append(["pump", 1])
            ops.append(["accept", other[base[i]]])
            ops.append(["pump", 2])
            for end_ in ends:             # the limit of the connection made just now, and one octet more
                ops.append(["send", end_, -1, ["max", 0]])
                ops.append(["send", end_, -1, ["over", 1]])
            ops.append(["pump", 1])
            ops.append(["drain", "A"])
            ops.append(["drain", "B"])
            reconnected = True
        if reconnected and rng.random() < 0.7:
            # use the connections up to (and one octet beyond) what SO_SNDMIU says now; index -1 is the socket made
            # last at that end (the re-connected one unless something else was created since)
            for end_ in ends:
                for _ in range(rng.randrange(1, 3)):
                    ops.append(["send", end_, rng.choice([-1, -1, rng.randrange(4)]),
                                rng.choice([["max", 0], ["max", 1], ["over", 1], ["max", rng.randrange(0, 6)]])])
        # -- a raw access point PDU: small (others follow it in the aggregate) or beyond every limit
        if raw[e] and rng.random() < 0.7:
            ops.append(["rawsend", e, 0, rng.choice([32, 33, 40]), rng.choice([0, 1, 10, 30, lim - 20, lim, lim + 50])])
        # -- traffic on connections made during the history
        for _ in range(rng.choice([0, 1, 2])):
            ops.append(["send", rng.choice(ends), rng.randrange(10), rng.choice([["max", 0], ["max", 0], ["over", 1],
                                                                               ["abs", rng.randrange(0, 30)],
                                                                               ["max", rng.randrange(0, 12)]])])
        # -- the leading data PDU at e: aimed at what is due behind it (first k set-up PDUs), or a sweep near the end
        if due and rng.random() < 0.7:
            k = rng.randrange(1, len(due) + 1)
            need = sum(due[:k])
        else:
            need = rng.choice([5, 5, 9, 11, rng.randrange(0, 26)])         # DM: 5, CC: 4..11
        delta = rng.randrange(-4, 5)
        c = rng.random()
        if c < 0.55 or not base:
            ops.append(["sendto", e, 0, 32, ["upto", lim - 4 - need + delta]])
        elif c < 0.85:
            ops.append(["send", e, 0, ["upto", lim - 5 - need + delta]])
        else:
            ops.append(["send", e, rng.randrange(6), ["max", rng.randrange(0, 12)]])
        if rng.random() < 0.3:
            ops.append(["sendto", e, 0, 32, ["abs", rng.randrange(0, 8)]])
        ops.append(["pump", 1])
        if rng.random() < 0.7:
            ops.append(["drain", rng.choice(ends)])
        if rng.random() < 0.5:
            ops.append(["accept", p])
    case["ops"] = ops
    return case


def gen_case(rng, miu_b, agf_a, profile):
    """A is the sender this job aims at: B announces miu_b, A aggregates or not; B->A is monitored all the same"""
    case = {"miu_a": rng.choice([2175, 2175, 248, rng.choice(SPECIAL), rng.randrange(128, 2176)]), "miu_b": miu_b,
            "agf_a": agf_a, "agf_b": rng.randrange(2), "rseed": rng.randrange(1 << 30), "profile": profile}
    if profile == "vack":
        return gen_vack(rng, case)
    if profile == "conn":
        return gen_conn(rng, case)
    setup, ops = [], []
    ends = ("A", "B")
    nconn = {"sd": rng.choice([0, 0, 1]), "edge": rng.choice([1, 2, 3]), "mix": rng.choice([0, 1, 2, 4, 6])}[profile]
    for i in range(nconn):
        setup.append(["conn", rng.choice(ends), 63 - i, some_miu(rng), rng.choice([1, 1, 2, 4, 15, rng.randrange(0, 16)]),
                      some_miu(rng), rng.choice([1, 1, 2, 4, 15, rng.randrange(0, 16)])])
    for end in ends:
        for _ in range({"sd": rng.choice([0, 1]), "edge": rng.choice([1, 2]), "mix": rng.choice([0, 1, 3])}[profile]):
            setup.append(["ldl", end])
        if profile != "sd" and rng.random() < 0.6:
            setup.append(["idle", end])
        if profile == "mix" and rng.random() < 0.5:
            setup.append(["listen", end, 50, some_miu(rng), rng.choice([1, 3, 15]), 4])
        if rng.random() < 0.06:
            setup.append(["raw", end])
    case["setup"] = setup

    def end_():
        return "A" if rng.random() < 0.7 else "B"

    def op_send():
        return ["send", end_(), rng.randrange(8), near(rng)]

    def op_sendto():
        return ["sendto", end_(), rng.randrange(4), rng.choice([16, 32, 33, 34, 63, rng.randrange(2, 64)]), near(rng)]

    def op_snl():
        n = rng.choice([1, 2, 20, 31, 32, 33, 34, 40, 65, 100, 250, 500, rng.randrange(1, 501)])
        lmin = rng.choice([1, 1, 5, 20])
        return ["snl", end_(), n, lmin, max(lmin, rng.choice([lmin, 12, 60])), rng.randrange(1 << 20)]

    def op_resolve():
        return ["resolve", end_(), rng.choice([1, 2, 30, 58, 59, 60, rng.randrange(1, 61)]), len(ops)]

    def op_cinj():
        sel = rng.choice([["sock", ["ldl", "idle"], rng.randrange(4)], ["sock", ["listen"], rng.randrange(3)],
                          ["sap", 1], ["sap", rng.randrange(2, 64)]])
        sn = None
        if sel == ["sap", 1]:
            sn = name_of(rng.randrange(100), rng.randrange(14, 40)) if rng.random() < 0.8 else None
        # source SAP of the virtual peer: distinct per operation where possible (keeps the connection MIU oracle tight)
        return ["cinj", end_(), sel, (44, 45, 46, 47, 48, 49, 51, 52, 53, 54, 55, 56)[len(ops) % 12], some_miu(rng),
                rng.randrange(16), sn]

    def op_pinj():
        t = rng.choice(["I", "I", "I", "RR", "RNR", "DISC", "DM", "UI", "FRMR"])
        return ["pinj", end_(), rng.randrange(8), t, rng.choice([0, 0, 0, 1, 5]), rng.randrange(16),
                rng.choice([0, 1, 100, 128, 129, 2175])]

    if profile == "sd":
        for _ in range(rng.randrange(1, 5)):
            c = rng.random()
            if c < 0.45:
                ops.append(op_snl())
            elif c < 0.9:
                e = end_()
                for _ in range(rng.choice([1, 2, 3, 5, 12, 40])):
                    o = op_resolve()
                    o[1] = e
                    ops.append(o)
            else:
                ops.append(op_sendto())
            if rng.random() < 0.4:
                ops.append(["pump", rng.randrange(1, 4)])
    elif profile == "edge":
        for _ in range(rng.randrange(2, 7)):
            e = end_()
            # something that is due without a size test ...
            c = rng.random()
            if c < 0.35:
                o = op_cinj()
                o[1] = e
                o[2] = ["sock", ["ldl", "idle"], rng.randrange(4)]
                ops.append(o)
            elif c < 0.7:
                # an acknowledgement: the other end sends, this end receives
                other = "B" if e == "A" else "A"
                for _ in range(rng.randrange(1, 4)):
                    ops.append(["send", other, rng.randrange(8), ["abs", rng.randrange(1, 30)]])
                ops.append(["pump", 1])
                ops.append(["drain", e])
            elif c < 0.85:
                ops.append(["bsy", e, rng.randrange(8), rng.randrange(2)])
            else:
                for _ in range(3):
                    o = op_resolve()
                    o[1] = e
                    o[2] = rng.choice([58, 59, 60, 57, rng.randrange(40, 61)])
                    ops.append(o)
            # ... and a first PDU that nearly fills the frame
            big = ["max", rng.randrange(0, 11)]
            ops.append(rng.choice([["send", e, rng.randrange(8), big], ["sendto", e, rng.randrange(4), 33, big]]))
            ops.append(["pump", rng.randrange(1, 3)])
    else:
        for _ in range(rng.randrange(8, 40)):
            c = rng.random()
            if c < 0.28:
                ops.append(op_send())
            elif c < 0.42:
                ops.append(op_sendto())
            elif c < 0.50:
                ops.append(op_snl())
            elif c < 0.60:
                ops.append(op_resolve())
            elif c < 0.68:
                ops.append(op_cinj())
            elif c < 0.71:
                ops.append(["accept", end_()])
            elif c < 0.78:
                ops.append(op_pinj())
            elif c < 0.86:
                ops.append(["drain", end_()])
            elif c < 0.89:
                ops.append(["bsy", end_(), rng.randrange(8), rng.randrange(2)])
            elif c < 0.91:
                ops.append(["close", end_(), rng.randrange(8)])
            elif c < 0.93:
                ops.append(["rawsend", end_(), 0, rng.randrange(2, 64), rng.choice([0, 10, 130, 2200])])
            else:
                ops.append(["pump", rng.randrange(1, 4)])
    case["ops"] = ops
    return case


# ---------------------------------------------------------------------------------------------
def _contract():
    from vf.core import contracts
    contracts.install_pdu_length_contract()
    return contracts


def execute(case, R):
    h = History(case, R)
    ok = h.run()
    return ok, h


def run(desc, R, rng):
    contracts = _contract()
    c0 = contracts.COUNTS.get("pdu_len_contract", 0)
    t_end = time.time() + desc.get("timeout", 240) * 0.8
    for n, (miu_b, agf_a, profile) in enumerate(desc["jobs"]):
        if time.time() > t_end:
            R.inconc("shard ran out of its time budget after %d of %d histories" % (n, len(desc["jobs"])))
            break
        case = gen_case(rng, miu_b, agf_a, profile)
        try:
            ok, h = execute(case, R)
        except contracts.ContractBroken as e:
            R.case(case, nontrivial=True)
            R.violation("len/" + str(e).split("(")[1].split(")")[0], "len(pdu) != len(encode(pdu)) while a frame was "
                        "built: %s" % e, case)
            continue
        R.case([case["miu_a"], case["miu_b"], case["agf_a"], case["agf_b"], case["setup"], case["ops"]], nontrivial=ok)
        R.count("histories")
        R.count("histories_" + profile)
        R.seen("miu_values_announced", case["miu_a"])
        R.seen("miu_values_announced", case["miu_b"])
        if h.aborted is not None and isinstance(h.aborted, contracts.ContractBroken):
            R.violation("len/" + str(h.aborted).split("(")[1].split(")")[0], "len(pdu) != len(encode(pdu)) while a "
                        "frame was built: %s" % h.aborted, case)
        if n < 1:
            R.sample({"miu_a": case["miu_a"], "miu_b": case["miu_b"], "agf_a": case["agf_a"], "profile": profile,
                      "setup": case["setup"], "ops": case["ops"][:6], "frames": h.mon.frames})
    R.count("pdu_len_contract", contracts.COUNTS.get("pdu_len_contract", 0) - c0)


def replay(case, R):
    contracts = _contract()
    try:
        ok, h = execute(case, R)
    except contracts.ContractBroken as e:
        R.violation("len/" + str(e).split("(")[1].split(")")[0], "len(pdu) != len(encode(pdu)): %s" % e, case)
        return
    if h.aborted is not None and isinstance(h.aborted, contracts.ContractBroken):
        R.violation("len/" + str(h.aborted).split("(")[1].split(")")[0], "len(pdu) != len(encode(pdu)): %s" % h.aborted, case)
    R.case(case, nontrivial=ok)
