"""C10 - nothing sent on an LLCP link exceeds the peer's announced MIU; aggregation is transparent.

Two real LogicalLinkControllers (vf.sim.llcpair.LockstepPair, strictly alternating link turns A,B,A,B...) run
queue-filling histories.  A wire monitor sees every transmitted frame (both directions; each controller is a
sender under test against the MIU the *other* one announced in its general bytes):

  link-miu      information field of the frame (bytes after the 2-byte header; 3 for a lone I/RR/RNR) <= Link MIU
                announced by the receiver (read from the receiver's general bytes with the independent decoder)
  payload       every I payload <= MIU announced by the receiving connection endpoint in its CONNECT/CC (from the
                wire, default 128); every UI payload <= receiver's Link MIU
  transparency  leaf PDUs of the collected frame  ==  leaf PDUs on the wire (independent AGF split + llcp_ref)
                ==  leaf PDUs handed to the receiver's dispatch(), same order; an access point enqueue during a
                leaf dispatch gets exactly that PDU

Frames that carry a PDU submitted through a raw access point socket of the sender are exempt from the size
rules (the property says so), not from transparency.

Profile `vack` aims at the last stage of collect(): 2..6 data link connections of the sender (receive window
2..15) have received I PDUs the application has read, so that sendack() owes a *voluntary* RR/RNR on each, and a
leading UI/I PDU of Link MIU-60..Link MIU octets (swept octet by octet over consecutive rounds of one history)
leaves every possible remainder of room in front of the acknowledgement loop; necessary acknowledgements
(window exhausted), RNR (receive-busy), DM and SNL answers are mixed in.  The verdict is still the wire monitor's
(information field against the announced Link MIU); a harness side wrapper of DataLinkConnection.sendack() and a
look at the sender's connection state only feed the coverage counters (which leaf PDUs were voluntary
acknowledgements, how many were still owed, how much room the acknowledgement loop found).
"""
import random
import struct
import threading
import time

from vf.core.rec import exc_sig
from vf.ref import llcp_ref as ref

ID = "C10"
LEVEL = "exploration"
RULE = ("a case is one history: (Link MIU announced by A, by B, aggregation on/off per side, socket set-up, "
        "operation list) executed on two real link controllers with alternating link turns; operations fill the send "
        "queues (connection/connection-less sends sized relative to the negotiated MIU, up to 500 service discovery "
        "requests answered in batches, concurrent resolve() calls with names of 1..60 bytes, CONNECT/DISC/I/RR "
        "PDUs from the peer that make DM/FRMR/RR due, receive-busy toggles, close; profile vack: 10..21 rounds in "
        "which 2..6 connections with receive window 2..15 owe voluntary acknowledgements while a leading UI/I PDU of "
        "Link MIU-60..Link MIU octets, stepped octet by octet, plus necessary acks/RNR/DM/SNL fill the aggregate); "
        "distinct by the whole tuple; "
        "non-trivial if at least one non-SYMM frame went through the size and transparency oracles")
ASSUMPTIONS = ["vf.ref.llcp_ref and the 10-line aggregate splitter in this module read wire frames correctly",
               "the Link MIU a controller announces is the MIUX TLV of the general bytes it hands to the MAC "
               "(cross-checked against the configured value; a mismatch makes the history inconclusive)",
               "PDUs handed to a controller with dispatch() by the harness stand for frames a peer sent; "
               "they are not subject to the oracles, the controller's answers are",
               "link turns alternate strictly (A,B,A,B) as NFC-DEP forces them to; an idle side sends SYMM"]
REQUIRED = ["frames_checked", "agf_frames", "transparency_compared", "pdu_len_contract", "snl_gt30_answers",
            "frames_at_exact_miu_lone", "frames_at_exact_miu_agf", "rr_in_agf", "dm_in_agf", "i_payload_checked",
            "ui_payload_checked", "miu_not_multiple_of_4_checked",
            # profile vack: the acknowledgement loop of collect() was reached in the deciding situations
            "agf_2plus_vack_behind_other", "frames_at_exact_miu_agf_with_vack", "vack_loop_stopped_free_4",
            "agf_vack_with_other_ack", "agf_vack_with_dm_or_snl"] + ["vack_room_%02d" % _r for _r in range(13)]

SPECIAL = (list(range(128, 141)) + list(range(247, 261)) + list(range(1000, 1004)) + list(range(2170, 2176)))
PROFILES = ["sd", "edge", "mix", "mix"]
VACK_REPS = {"quick": 12, "thorough": 3}       # histories of profile vack per target Link MIU
VACK_SWEEP = 61                                # leading PDU sizes Link MIU-60 .. Link MIU


# ---------------------------------------------------------------------------------------------
def plan(tier, seed):
    rng = random.Random(seed * 7919 + 10)
    n = 16
    if tier == "quick":
        targets = list(SPECIAL) + [rng.randrange(141, 2170) for _ in range(11)]
        reps = 32
        tmo = 240
    else:
        targets = list(range(128, 2176))
        reps = 16
        tmo = 3000
    vreps = VACK_REPS[tier if tier in VACK_REPS else "thorough"]
    jobs = []
    for r in range(reps):
        for t in targets:
            for agf in (1, 0):
                jobs.append([t, agf, PROFILES[(r + agf) % len(PROFILES)]])
            if r < vreps:
                jobs.append([t, 1, "vack"])       # voluntary acknowledgements exist with aggregation only
    return [{"jobs": jobs[i::n], "timeout": tmo} for i in range(n)]


# ---------------------------------------------------------------------------------------------
def miu_class(m):
    if m <= 140:
        return "128_140"
    if m <= 260:
        return "141_260"
    if m <= 1003:
        return "261_1003"
    return "1004_2175"


def split_agf(enc):
    """leaf PDU byte strings of a frame (independent of nfcpy); None if the aggregate is malformed"""
    ptype = ((enc[0] << 8 | enc[1]) >> 6) & 15
    if ptype != 2:
        return [bytes(enc)]
    out, i = [], 2
    while i < len(enc):
        if len(enc) - i < 2:
            return None
        n = enc[i] << 8 | enc[i + 1]
        if n < 2 or i + 2 + n > len(enc):
            return None
        sub = split_agf(enc[i + 2:i + 2 + n])
        if sub is None:
            return None
        out.extend(sub)
        i += 2 + n
    return out


def members(enc):
    """top level members (byte strings) of an aggregate"""
    out, i = [], 2
    while i + 2 <= len(enc):
        n = enc[i] << 8 | enc[i + 1]
        out.append(bytes(enc[i + 2:i + 2 + n]))
        i += 2 + n
    return out


def describe(d):
    """structural name of a leaf PDU for mechanism signatures"""
    if d["t"] == "SNL":
        if d["sdres"] and d["sdreq"]:
            return "SNL.sdres+sdreq"
        if d["sdres"]:
            return "SNL.sdres"
        if d["sdreq"]:
            return "SNL.sdreq"
        return "SNL.empty"
    return d["t"]


def canon(d):
    return ref.encode(d)


# ---------------------------------------------------------------------------------------------
_ENQ_HOOKS = {}
_ENQ_PATCHED = []


def _patch_enqueue():
    """observe ServiceAccessPoint.enqueue / ServiceDiscovery.enqueue (harness side wrapper, once per process)"""
    if _ENQ_PATCHED:
        return
    import nfc.llcp.llc as L
    for cls in (L.ServiceAccessPoint, L.ServiceDiscovery):
        orig = cls.enqueue

        def enqueue(self, rcvd_pdu, _orig=orig):
            hook = _ENQ_HOOKS.get(id(self.llc))
            if hook is not None:
                hook(rcvd_pdu)
            return _orig(self, rcvd_pdu)
        cls.enqueue = enqueue
    _ENQ_PATCHED.append(True)


_VACKS = []                # PDU objects DataLinkConnection.sendack() returned during the current link turn
_VACK_PATCHED = []


def _patch_sendack():
    """remember which PDU objects are voluntary acknowledgements (coverage counters only, never a verdict)"""
    if _VACK_PATCHED:
        return
    import nfc.llcp.tco as T
    orig = T.DataLinkConnection.sendack

    def sendack(self, _orig=orig):
        p = _orig(self)
        if p is not None:
            _VACKS.append(p)
        return p
    T.DataLinkConnection.sendack = sendack
    _VACK_PATCHED.append(True)


class Monitor:
    def __init__(self, R, lp, case):
        from vf.core import nfcpdu
        import nfc.llcp.pdu as P
        self.R, self.lp, self.case, self.P = R, lp, case, P
        self.fields, self.flat = nfcpdu.fields, nfcpdu.flatten
        self.announced = {}
        for end, gb, cfg in (("A", lp.gbi, case["miu_a"]), ("B", lp.gbt, case["miu_b"])):
            pax = ref.decode(b"\x00\x40" + bytes(gb[3:]))
            self.announced[end] = pax["miu"]
            if pax["miu"] != cfg:
                R.inconc("controller %s configured with miu=%d announces %d" % (end, cfg, pax["miu"]))
        self.agf = {"A": bool(case["agf_a"]), "B": bool(case["agf_b"])}
        self.conn_pending = {}     # (end, local sap) -> [(dsap, miu)] of CONNECTs not yet answered by CC/DM
        self.conn_miu = {}         # (receiving end, its sap, sender's sap) -> miu the receiving endpoint announced
        self.raw_pending = {"A": [], "B": []}
        self.frames = 0
        self.active = None
        self.rx = []
        self.cur_leaf = None
        self.enq_for_leaf = 0
        _patch_enqueue()
        _patch_sendack()
        for end in ("A", "B"):
            self._wrap_dispatch(end)
        lp.observers.append(self.on_frame)
        self.last = None
        self.tops = []

    # -- receiver side observation -------------------------------------------------------------
    def _wrap_dispatch(self, end):
        llc = self.lp.llc(end)
        orig = llc.dispatch

        def dispatch(rcvd_pdu):
            leaf = (self.active == end and rcvd_pdu is not None and getattr(rcvd_pdu, "name", None) != "AGF")
            if leaf:
                self.rx.append(rcvd_pdu)
                self.cur_leaf, self.enq_for_leaf = rcvd_pdu, 0
            try:
                return orig(rcvd_pdu)
            finally:
                if leaf:
                    self.cur_leaf = None
        llc.dispatch = dispatch
        _ENQ_HOOKS[id(llc)] = lambda p, end=end: self.on_enqueue(end, p)

    def on_enqueue(self, end, p):
        if self.active != end:
            return
        R = self.R
        R.count("enqueue_observed")
        if self.cur_leaf is None:
            R.violation("transparency/enqueue/outside-leaf-dispatch", "an access point got a PDU while no leaf PDU of "
                        "the received frame was being dispatched", self.case)
            return
        self.enq_for_leaf += 1
        if self.enq_for_leaf > 1:
            R.violation("transparency/enqueue/duplicated", "one received PDU was handed to access points twice", self.case)
        a, b = self.fields(self.cur_leaf), self.fields(p)
        if a["t"] == "CONNECT" and a["dsap"] == 1:
            a = dict(a, dsap=b["dsap"], sn=None)      # connect-by-name is re-addressed to the bound SAP
            b = dict(b, sn=None)
        if canon(a) != canon(b):
            R.violation("transparency/enqueue/altered-%s" % a["t"], "the PDU handed to the access point differs from "
                        "the dispatched one: %s vs %s" % (canon(a).hex()[:60], canon(b).hex()[:60]), self.case)

    # -- bookkeeping of connection MIUs (wire or peer-injected PDUs) --------------------------
    def note_params(self, sender, d):
        """MIU announced by connection endpoints.  An endpoint is known on the wire as (end, its SAP, peer SAP); when
        the harness' virtual peer re-uses a source SAP for several CONNECTs the largest announced value counts
        (weaker, never a false alarm)."""
        other = "B" if sender == "A" else "A"
        if d["t"] == "CONNECT":
            self.conn_pending.setdefault((sender, d["ssap"]), []).append((d["dsap"], d["miu"]))
        elif d["t"] == "CC":
            self.conn_miu[(sender, d["ssap"], d["dsap"])] = d["miu"]
            pend = self.conn_pending.get((other, d["dsap"]), [])
            cands = [m for ds, m in pend if ds in (d["ssap"], 1)]
            if cands:
                key = (other, d["dsap"], d["ssap"])
                self.conn_miu[key] = max(cands + [self.conn_miu.get(key, 0)])
                pend[:] = [(ds, m) for ds, m in pend if ds not in (d["ssap"], 1)]
        elif d["t"] == "DM":
            pend = self.conn_pending.get((other, d["dsap"]), [])
            pend[:] = [(ds, m) for ds, m in pend if ds != d["ssap"]]

    # -- sender side: the frame on the wire ----------------------------------------------------
    def on_frame(self, direction, enc, p):
        R = self.R
        snd, rcv = direction[0], direction[2]
        link = self.announced[rcv]
        self.frames += 1
        R.count("frames_checked")
        try:
            d = ref.decode(enc)
            leaves = split_agf(enc)
        except (ref.Reject, IndexError) as e:
            R.violation("wire/unreadable", "the reference reader rejects a transmitted frame: %r %s" % (e, enc.hex()[:80]),
                        self.case)
            self.last = None
            return
        if leaves is None:
            R.violation("wire/unreadable", "malformed aggregate on the wire: %s" % enc.hex()[:80], self.case)
            self.last = None
            return
        ld = [ref.decode(x) for x in leaves]
        top = d["t"]
        R.seen("frame_types", top)
        for x in ld:
            R.seen("leaf_types", describe(x))
            self.note_params(snd, x)
        # raw access point exemption
        exempt = False
        pend = self.raw_pending[snd]
        for x in leaves:
            if x in pend:
                pend.remove(x)
                exempt = True
        hdr = 3 if top in ("I", "RR", "RNR") else 2
        info = len(enc) - hdr
        cls = miu_class(link)
        if exempt:
            R.count("frames_exempt_raw")
        else:
            R.seen("miu_values_checked", link)
            if link % 4:
                R.count("miu_not_multiple_of_4_checked")
            R.seen("miu_values_checked_agf_%s" % ("on" if self.agf[snd] else "off"), link)
            R.max("fill_permille_%s_%s" % ("agf" if top == "AGF" else "lone", cls), info * 1000 // link)
            if info == link:
                R.count("frames_at_exact_miu")
                R.count("frames_at_exact_miu_%s" % ("agf" if top == "AGF" else "lone"))
            if info > link:
                R.max("link_excess_bytes_%s" % ("agf" if top == "AGF" else "lone"), info - link)
                self.report_link(direction, enc, d, top, info, link)
        if top == "AGF":
            R.count("agf_frames")
            R.max("pdus_per_agf", len(ld))
            for x in ld:
                if x["t"] in ("RR", "RNR"):
                    R.count("rr_in_agf")
                elif x["t"] == "DM":
                    R.count("dm_in_agf")
                elif x["t"] == "FRMR":
                    R.count("frmr_in_agf")
                elif x["t"] == "SNL":
                    R.count("snl_in_agf")
            if ld and ld[-1]["t"] in ("RR", "RNR") and len(ld) > 1:
                R.count("agf_with_trailing_ack")
        for x in ld:
            if x["t"] == "SNL":
                R.count("snl_pdus")
                R.max("answers_per_snl", len(x["sdres"]))
                R.max("requests_per_snl", len(x["sdreq"]))
                if len(x["sdres"]) > 30:
                    R.count("snl_gt30_answers")
            # payload rule
            if exempt:
                continue
            where = "in-AGF" if top == "AGF" else "alone"
            if x["t"] == "UI":
                R.count("ui_payload_checked")
                if len(x["data"]) > link:
                    R.violation("payload/UI>link-miu/" + where, "UI payload of %d bytes, receiver announced Link MIU %d"
                                % (len(x["data"]), link), self.case)
            elif x["t"] == "I":
                # data can overtake the CC (accepted socket is served before the listening one): the receiving
                # endpoint spoke in its CONNECT, unanswered CONNECTs of that SAP count as well
                cands = [mm for ds, mm in self.conn_pending.get((rcv, x["dsap"]), []) if ds in (x["ssap"], 1)]
                m = self.conn_miu.get((rcv, x["dsap"], x["ssap"]))
                if cands:
                    m = max(cands + [m or 0])
                if m is None:
                    R.count("i_payload_unknown_connection")
                else:
                    R.count("i_payload_checked")
                    R.max("i_fill_permille", len(x["data"]) * 1000 // m)
                    if len(x["data"]) > m:
                        R.violation("payload/I>connection-miu/" + where, "I payload of %d bytes, the receiving endpoint "
                                    "%d<-%d announced MIU %d" % (len(x["data"]), x["dsap"], x["ssap"], m), self.case)
                    if len(x["data"]) > link:
                        R.violation("payload/I>link-miu/" + where, "I payload of %d bytes, receiver announced Link "
                                    "MIU %d" % (len(x["data"]), link), self.case)
        # transparency, sender half: what collect() returned is what is on the wire
        try:
            coll = [canon(self.fields(x)) for x in self.flat(p)]
        except Exception as e:      # a collected object the adapter cannot read
            coll = None
            R.violation("transparency/encode/unreadable/%s" % exc_sig(e), "collected frame cannot be read: %r" % e, self.case)
        wire = [canon(x) for x in ld]
        if coll is not None:
            R.count("transparency_encode_compared")
            if coll != wire:
                R.violation("transparency/encode/" + self.diff_kind(coll, wire), "PDUs collected by the sender differ "
                            "from the PDUs in the encoded frame: %d collected, %d on the wire" % (len(coll), len(wire)),
                            self.case)
        self.last = (rcv, wire, top)
        self.tops.append(top)
        if not exempt and self.agf[snd]:
            self.vack_stats(snd, p, leaves, ld, top, info, link)

    # -- coverage of the voluntary acknowledgement stage (counters only) ------------------------
    def vack_owed(self, end):
        """SAP addresses of `end` where sendack() would return an acknowledgement now (tco.py: ESTABLISHED,
        receive confirmations outstanding, V(R) != V(RA)); state inspection for coverage counters only"""
        import nfc.llcp.tco as T
        out = []
        for addr, sap in enumerate(self.lp.llc(end).sap):
            for s in getattr(sap, "sock_list", ()):
                if (isinstance(s, T.DataLinkConnection) and s.state.ESTABLISHED and s.recv_confs
                        and s.recv_cnt != s.recv_ack):
                    out.append(addr)
                    break
        return out

    def vack_stats(self, snd, p, leaves, ld, top, info, link):
        """called after the sender's collect(): which leaves are voluntary acknowledgements (objects returned by
        sendack() in this turn), how many are still owed, how much room the acknowledgement loop found"""
        R = self.R
        objs = self.flat(p)
        if len(objs) != len(leaves):
            return
        isv = [any(o is v for v in _VACKS) for o in objs]
        nv = sum(isv)
        owed_after = self.vack_owed(snd)
        if nv + len(owed_after) == 0:
            return
        others = [k for k, v in enumerate(isv) if not v]
        behind = bool(others) and nv > 0 and others[0] == 0
        free_end = link - info if top == "AGF" else link - (2 + len(leaves[0]))
        R.count("vack_pdus", nv)
        if nv:
            R.count("frames_with_vack")
            R.max("vacks_per_frame", nv)
            R.count("vack_rnr", sum(1 for k, v in enumerate(isv) if v and ld[k]["t"] == "RNR"))
        if top == "AGF" and nv:
            R.count("agf_with_vack")
            if behind:
                R.count("agf_vack_behind_other")
            if nv >= 2 and behind:
                R.count("agf_2plus_vack_behind_other")
            if info == link:
                R.count("frames_at_exact_miu_agf_with_vack")
            kinds = set(ld[k]["t"] for k in others)
            if kinds & {"RR", "RNR"}:
                R.count("agf_vack_with_other_ack")          # necessary or busy-change acknowledgement
            if kinds & {"DM", "SNL"}:
                R.count("agf_vack_with_dm_or_snl")
            if kinds & {"I"}:
                R.count("agf_vack_with_i")
            if kinds & {"UI"}:
                R.count("agf_vack_with_ui")
        # room the acknowledgement loop found: octets left for the information field of a PDU with a 3 octet header
        # once everything else was collected, in a turn where at least two acknowledgements were owed
        if others and nv + len(owed_after) >= 2:
            room = link - sum(2 + len(leaves[k]) for k in others) - 5
            R.seen("vack_rooms", max(-20, min(room, 80)))
            R.count("vack_room_%02d" % room if 0 <= room <= 12 else "vack_room_neg" if room < 0 else "vack_room_gt12")
            R.max("vack_owed_with_other_pdus", nv + len(owed_after))
        # the loop ended because the frame was full although an access point further on still owes one
        last = max([ld[k]["ssap"] for k, v in enumerate(isv) if v] or [-1])
        further = [a for a in owed_after if a > last]
        if further and others and free_end < 5:
            if nv:
                R.count("vack_loop_stopped_free_%d" % max(free_end, -1))
            else:
                R.count("vack_loop_not_entered_free_%d" % max(free_end, -1))

    def report_link(self, direction, enc, d, top, info, link):
        sig = "link-miu/" + (describe(d) if top != "AGF" else "AGF")
        extra = ""
        if top == "AGF":
            # the member whose addition made (or left) the aggregate larger than the limit: the first member is
            # put in unconditionally (alone it would be a legal frame), so blame starts with member 2
            cum = 0
            mem = members(enc)
            if len(mem) < 2:
                sig += "/single-member"
            for k, m in enumerate(mem):
                cum += 2 + len(m)
                if cum > link and k >= 1:
                    md = ref.decode(m)
                    sig += "/overfull-on-adding-" + describe(md)
                    if describe(md) == "SNL.sdres" and cum - link < 4:
                        sig += "/partial-last-sdres"
                    extra = "; member %d of %d (%s, %d bytes) was added with %d bytes of members already there" % (
                        k + 1, len(mem), describe(md), len(m), cum - 2 - len(m))
                    break
        elif describe(d) == "SNL.sdres" and info - link < 4:
            sig += "/partial-last-sdres"
        self.R.violation(sig, "%s frame %s with an information field of %d bytes, receiver announced Link MIU %d%s; "
                         "frame %s..." % (direction, top, info, link, extra, enc.hex()[:48]), self.case)

    @staticmethod
    def diff_kind(a, b):
        if len(b) < len(a):
            return "dropped"
        if len(b) > len(a):
            return "extra"
        if sorted(a) == sorted(b):
            return "reordered"
        return "altered"

    # -- one link turn -------------------------------------------------------------------------
    def turn(self, src):
        rcv = "B" if src == "A" else "A"
        self.active, self.rx, self.last = rcv, [], None
        del _VACKS[:]
        try:
            p = self.lp.turn(src)
        except Exception as e:
            if self.last is not None:       # the frame was on the wire: the receiver's decode/dispatch raised
                self.R.violation("transparency/receive-raises/%s" % exc_sig(e), "the receiver raised %r on a frame the "
                                 "sender collected (%s)" % (e, self.last[2]), self.case)
            raise
        finally:
            self.active = None
        if p is None or self.last is None:
            return p
        R = self.R
        _, wire, top = self.last
        got = [canon(self.fields(x)) for x in self.rx]
        R.count("transparency_compared")
        R.count("transparency_leaves", len(wire))
        if top == "AGF":
            R.count("transparency_compared_agf")
        if got != wire:
            R.violation("transparency/dispatch/" + self.diff_kind(wire, got), "receiver dispatched %d leaf PDUs, the "
                        "frame carried %d (%s)" % (len(got), len(wire), top), self.case)
        return p


# ---------------------------------------------------------------------------------------------
def payload(k, n):
    """n bytes that identify send number k"""
    head = struct.pack(">I", k & 0xFFFFFFFF)
    return (head + bytes([k & 255]) * n)[:n]


def name_of(k, n):
    """service name of exactly n bytes, distinct for distinct k as far as n allows"""
    alpha = b"abcdefghijklmnopqrstuvwxyzABCDEFGHIJKLMNOPQRSTUVWXYZ0123456789"
    out = bytearray()
    k += 1
    while k and len(out) < n:
        out.append(alpha[k % 62])
        k //= 62
    return bytes(out + b"." * (n - len(out)))


class History:
    """executes a case (dict) on a fresh pair; every blocking socket call runs in a helper thread"""

    def __init__(self, case, R):
        import nfc.llcp
        import nfc.llcp.pdu as P
        from vf.sim import llcpair
        self.nfc, self.P, self.llcpair, self.R, self.case = nfc, P, llcpair, R, case
        random.seed(case["rseed"])        # nfcpy draws service discovery transaction ids from the global PRNG
        self.lp = llcpair.LockstepPair(opts_a={"miu": case["miu_a"], "agf": bool(case["agf_a"])},
                                       opts_b={"miu": case["miu_b"], "agf": bool(case["agf_b"])})
        self.lp.keep_wire = False
        self.mon = Monitor(R, self.lp, case)
        self.socks = {"A": [], "B": []}      # [kind, Socket]
        self.threads = []
        self.sendno = 0
        self.aborted = None

    # -- helpers -------------------------------------------------------------------------------
    def llc(self, end):
        return self.lp.llc(end)

    def pick(self, end, kinds, i):
        c = [s for k, s in self.socks[end] if k in kinds]
        return c[i % len(c)] if c else None

    def api(self, fn, *a):
        try:
            return fn(*a)
        except self.nfc.llcp.Error as e:
            self.R.count("api_error_%s" % self.nfc.llcp.errno.errorcode.get(e.errno, e.errno))
        except Exception as e:
            self.R.count("api_other_exception")
            self.R.seen("api_other_exceptions", exc_sig(e))
        return None

    def pump(self, n=1):
        c = 0
        for _ in range(n):
            c += self.mon.turn("A") is not None
            c += self.mon.turn("B") is not None
        return c

    def spawn(self, fn, ready, limit=4000):
        th = threading.Thread(target=fn, daemon=True)
        th.start()
        self.threads.append(th)
        for _ in range(limit):
            if ready() or not th.is_alive():
                return True
            time.sleep(0.0002)
        self.R.count("helper_not_ready")
        return False

    def inject(self, end, d):
        """a PDU the peer of `end` sent, handed straight to the controller (bytes built by the reference encoder)"""
        other = "B" if end == "A" else "A"
        enc = ref.encode(d)
        self.mon.note_params(other, d)
        self.R.count("peer_pdus_injected")
        self.llc(end).dispatch(self.P.decode(enc))
        return len(enc) - 2

    # -- set-up --------------------------------------------------------------------------------
    def setup(self, st):
        nfc, lp = self.nfc, self.lp
        k = st[0]
        if k == "conn":
            _, cend, addr, cmiu, crw, smiu, srw = st
            send = "B" if cend == "A" else "A"
            lp.pump, lp_pump = (lambda n=1: self.pump(n)), lp.pump     # connection set-up frames are monitored too
            try:
                cli, acc, srv = self.llcpair.lockstep_connect(lp, cend, addr, {"miu": cmiu, "rw": crw},
                                                              {"miu": smiu, "rw": srw})
            finally:
                lp.pump = lp_pump
            self.socks[cend].append(["dlc", cli])
            self.socks[send].append(["dlc", acc])
            self.socks[send].append(["listen", srv])
            self.R.count("connections_established")
        elif k in ("ldl", "raw", "idle"):
            _, end = st
            typ = {"ldl": nfc.llcp.LOGICAL_DATA_LINK, "raw": nfc.llcp.llc.RAW_ACCESS_POINT,
                   "idle": nfc.llcp.DATA_LINK_CONNECTION}[k]
            s = nfc.llcp.Socket(self.llc(end), typ)
            s.bind()
            self.socks[end].append([k, s])
        elif k == "listen":
            _, end, addr, miu, rw, backlog = st
            s = nfc.llcp.Socket(self.llc(end), nfc.llcp.DATA_LINK_CONNECTION)
            s.setsockopt(nfc.llcp.SO_RCVMIU, miu)
            s.setsockopt(nfc.llcp.SO_RCVBUF, rw)
            s.bind(addr)
            s.listen(backlog)
            self.socks[end].append(["listen", s])
        self.R.count("sockets_created")

    # -- operations ----------------------------------------------------------------------------
    def size(self, spec, limit):
        kind, v = spec
        if kind == "max":
            return max(0, limit - v)
        if kind == "over":
            return limit + v
        return min(v, limit)

    def op(self, o):
        nfc, R = self.nfc, self.R
        k = o[0]
        DW = nfc.llcp.MSG_DONTWAIT
        if k == "pump":
            self.pump(o[1])
        elif k == "send":
            _, end, i, spec = o
            s = self.pick(end, ("dlc",), i)
            if s is None:
                return
            lim = self.api(s.getsockopt, nfc.llcp.SO_SNDMIU)
            if lim is None:
                return
            self.sendno += 1
            if self.api(s.send, payload(self.sendno, self.size(spec, lim)), DW):
                R.count("dlc_sends_queued")
        elif k == "sendto":
            _, end, i, dsap, spec = o
            s = self.pick(end, ("ldl",), i)
            if s is None:
                return
            lim = self.api(s.getsockopt, nfc.llcp.SO_SNDMIU)
            if lim is None:
                return
            self.sendno += 1
            if self.api(s.sendto, payload(self.sendno, self.size(spec, lim)), dsap, DW):
                R.count("ldl_sends_queued")
        elif k == "rawsend":
            _, end, i, dsap, n = o
            s = self.pick(end, ("raw",), i)
            if s is None:
                return
            self.sendno += 1
            pdu = self.P.UnnumberedInformation(dsap, s.getsockname(), payload(self.sendno, n))
            self.mon.raw_pending[end].append(self.P.encode(pdu))
            if self.api(s.send, pdu, DW):
                R.count("raw_sends_queued")
        elif k == "drain":
            _, end = o
            for kind, s in list(self.socks[end]):
                if kind not in ("dlc", "ldl", "raw"):
                    continue
                for _ in range(16):
                    if not self.api(s.poll, "recv", 0):
                        break
                    self.api(s.recv)
                    R.count("messages_received")
        elif k == "recvn":
            _, end, i, n = o
            s = self.pick(end, ("dlc",), i)
            for _ in range(n if s is not None else 0):
                if not self.api(s.poll, "recv", 0):
                    break
                self.api(s.recv)
                R.count("messages_received")
        elif k == "snl":
            _, end, n, lmin, lmax, sd = o
            r = random.Random(sd)
            req = [(j & 255, name_of(j, r.randint(lmin, lmax))) for j in range(n)]
            info = self.inject(end, {"t": "SNL", "dsap": 1, "ssap": 1, "sdreq": req, "sdres": []})
            R.count("sdreq_injected", n)
            R.max("sdreq_per_injected_snl", n)
            R.count("snl_injected_within_receiver_miu" if info <= self.mon.announced[end] else "snl_injected_oversize")
        elif k == "resolve":
            _, end, n, j = o
            llc = self.llc(end)
            name = name_of(1000 + j, n)
            before = len(llc.sap[1].sdreq) if llc.sap[1] else 0

            def work():
                try:
                    llc.resolve(name)
                except Exception:
                    pass
            self.spawn(work, lambda: llc.sap[1] is None or len(llc.sap[1].sdreq) > before)
            R.count("resolve_calls")
            R.seen("resolve_name_lengths", n)
        elif k == "cinj":
            _, end, sel, ssap, miu, rw, sn = o
            if sel[0] == "sock":
                s = self.pick(end, tuple(sel[1]), sel[2])
                if s is None:
                    return
                dsap = s.getsockname()
                if dsap is None:
                    return
            else:
                dsap = sel[1]
            d = {"t": "CONNECT", "dsap": dsap, "ssap": ssap, "miu": miu, "rw": rw, "sn": sn}
            self.inject(end, d)
            R.count("connect_injected")
        elif k == "accept":
            _, end = o
            for kind, s in list(self.socks[end]):
                if kind == "listen" and self.llcpair.has_pending_connect(self.llc(end), s):
                    c = self.api(s.accept)
                    if c is not None:
                        self.socks[end].append(["dlc", c])
                        R.count("accepted_injected_connect")
        elif k == "pinj":
            _, end, i, t, dns, nr, n = o
            # (a UI addressed to an established connection is left out: the receiving controller then blocks
            #  inside its own dispatch, waiting for the DM of the close() it starts - not this property's business)
            s = self.pick(end, ("idle", "ldl") if t == "UI" else ("dlc", "idle", "ldl"), i)
            if s is None:
                return
            a, b = s.getsockname(), s.getpeername()
            if a is None:
                return
            if b is None:
                b = 33
            d = {"t": t, "dsap": a, "ssap": b}
            if t == "I":
                tco = s._tco
                ns = ((getattr(tco, "recv_cnt", 0) or 0) + dns) % 16
                d.update(ns=ns, nr=nr, data=payload(7, n))
            elif t in ("RR", "RNR"):
                d.update(nr=nr)
            elif t == "DM":
                d.update(reason=nr)
            elif t == "UI":
                d.update(data=payload(8, n))
            elif t == "FRMR":
                d.update(rej_flags=4, rej_ptype=12, ns=0, nr=0, vs=0, vr=0, vsa=0, vra=0)
            self.inject(end, d)
            R.count("peer_%s_injected" % t)
        elif k == "bsy":
            _, end, i, flag = o
            s = self.pick(end, ("dlc",), i)
            if s is not None:
                self.api(s.setsockopt, nfc.llcp.SO_RCVBSY, flag)
        elif k == "close":
            _, end, i = o
            s = self.pick(end, ("dlc",), i)
            if s is None:
                return
            tco = s._tco
            # unsent I PDUs of a closing socket cannot be encoded by nfcpy (N(R) stays None) and would end the
            # history; let them go out first (queue inspection only steers the workload)
            for _ in range(8):
                if not any(getattr(q, "name", "") == "I" for q in list(tco.send_queue)):
                    break
                self.pump(1)

            def work():
                try:
                    s.close()
                except Exception:
                    pass
            self.spawn(work, lambda: not tco.state.ESTABLISHED)
            R.count("close_calls")

    # -- whole history -------------------------------------------------------------------------
    def run(self):
        R = self.R
        if not (self.lp.ok_a and self.lp.ok_b):
            R.inconc("link activation failed")
            return False
        try:
            for st in self.case["setup"]:
                self.setup(st)
        except Exception as e:
            self.aborted = e
            R.count("setup_failed")
            R.seen("setup_failures", exc_sig(e) + " " + repr(e)[:80])
            self.finish()
            return False
        R.max("sockets_per_history", sum(len(v) for v in self.socks.values()))
        try:
            for o in self.case["ops"]:
                self.op(o)
            # run the queues dry: alternate turns, keep the receive windows open
            idle = dm_only = 0
            for _ in range(self.case.get("tail", 300)):
                self.mon.tops = []
                sent = self.pump(1)
                self.op(["drain", "A"])
                self.op(["drain", "B"])
                idle = idle + 1 if sent == 0 else 0
                if idle >= 3:
                    break
                # two nfcpy stacks answer each other's DM with a DM for ever (inactive socket on both sides):
                # nothing new to see, stop there
                dm_only = dm_only + 1 if self.mon.tops == ["DM", "DM"] else 0
                if dm_only >= 4:
                    R.count("tail_cut_dm_ping_pong")
                    break
            else:
                R.count("tail_not_quiescent")
        except Exception as e:
            self.aborted = e
            R.count("history_aborted")
            R.seen("history_aborts", exc_sig(e) + " " + repr(e)[:80])
        self.finish()
        return self.mon.frames > 0

    def finish(self):
        for end in ("A", "B"):
            _ENQ_HOOKS.pop(id(self.llc(end)), None)
            try:
                self.llc(end).terminate(reason="end of history")
            except Exception as e:
                self.R.seen("terminate_failures", exc_sig(e))
        t0 = time.time()
        for th in self.threads:
            th.join(max(0.0, 2.0 - (time.time() - t0)))
            if th.is_alive():
                self.R.count("helper_threads_left")


# ---------------------------------------------------------------------------------------------
def near(rng):
    """message size relative to the allowed maximum"""
    return rng.choice([["max", 0], ["max", 0], ["max", rng.randrange(0, 12)], ["max", rng.randrange(0, 12)],
                       ["max", rng.randrange(0, 40)], ["abs", rng.randrange(0, 20)], ["abs", rng.randrange(0, 2200)],
                       ["over", 1]])


def some_miu(rng):
    return rng.choice([128, 2175, 2175, rng.choice(SPECIAL), rng.randrange(128, 2176)])


def gen_vack(rng, case):
    """A owes voluntary acknowledgements on n = 2..6 connections while a leading PDU nearly fills the frame.

    One history is a run of consecutive rounds; round r uses a leading PDU of Link MIU - x octets with x stepping by
    one through 0..60 (start and direction drawn), so that whatever else is due in the same turn (acknowledgements
    with 5 octets, DM with 5, SNL answers, a second data PDU) every remainder of room is met.  Per round: B sends
    1..RW I PDUs on some connections, the link turns until they arrived, A's application reads all or some of them
    (read and window not exhausted: voluntary acknowledgement owed; window exhausted: necessary acknowledgement),
    optionally DM/SNL/RNR/second data PDU become due at A, A queues the leading PDU, one link turn."""
    link = case["miu_b"]
    case["agf_b"] = 1 if rng.random() < 0.75 else 0
    n = rng.randrange(2, 7)
    setup, ops = [], []
    setup.append(["ldl", "B"])                       # SAP 32 of B: destination of A's UI PDUs
    a_ldl_first = rng.random() < 0.5                 # below or above A's client connection SAPs in collect() order
    if a_ldl_first:
        setup.append(["ldl", "A"])
    rws = []
    for i in range(n):
        rw = rng.choice([2, 2, 3, 4, 15, rng.randrange(2, 16)])
        amiu = some_miu(rng)
        bmiu = rng.choice([2175, link, link, some_miu(rng)])
        brw = rng.choice([1, 2, 15, rng.randrange(1, 16)])
        rws.append(rw)
        if rng.random() < 0.5:
            setup.append(["conn", "A", 63 - i, amiu, rw, bmiu, brw])
        else:
            setup.append(["conn", "B", 63 - i, bmiu, brw, amiu, rw])
    lead_conn = None
    if rng.random() < 0.6:                           # a connection of its own for a leading I PDU
        lead_conn = n
        st = ["conn", rng.choice("AB"), 63 - n, some_miu(rng), 15, rng.choice([2175, link]), 15]
        if st[1] == "B":
            st[3], st[5] = st[5], st[3]
        setup.append(st)
    if not a_ldl_first:
        setup.append(["ldl", "A"])
    if rng.random() < 0.7:
        setup.append(["idle", "A"])
    case["setup"] = setup
    x = rng.randrange(VACK_SWEEP)
    step = rng.choice([1, 1, -1])
    for _ in range(rng.randrange(10, 22)):
        # -- B -> A data
        if rng.random() < 0.6:
            conns = list(range(n))
        else:
            conns = rng.sample(range(n), rng.randrange(2, n + 1))
        total = 0
        for j in conns:
            k = rng.choice([1, 1, 1, 2, 2, rws[j] - 1, rws[j], rng.randrange(1, rws[j] + 1)])
            k = min(k, 5)
            total += k
            for _ in range(k):
                ops.append(["send", "B", j, ["abs", rng.randrange(1, 24)]])
        ops.append(["pump", 1 + (total // 3 if case["agf_b"] else total)])
        # -- A's application reads
        if rng.random() < 0.65:
            ops.append(["drain", "A"])
        else:
            for j in conns:
                ops.append(["recvn", "A", j, rng.choice([1, 1, 2, 15])])
        # -- other things due at A in the same turn
        c = rng.random()
        if c < 0.18:
            for _ in range(rng.randrange(1, 4)):
                ops.append(["cinj", "A", ["sock", ["ldl", "idle"], rng.randrange(3)],
                            (44, 45, 46, 47, 48, 49, 51, 52, 53, 54, 55, 56)[len(ops) % 12], some_miu(rng),
                            rng.randrange(16), None])
        elif c < 0.30:
            ops.append(["cinj", "A", ["sap", rng.choice([1, rng.randrange(2, 31)])],
                        (44, 45, 46, 47, 48, 49, 51, 52, 53, 54, 55, 56)[len(ops) % 12], some_miu(rng),
                        rng.randrange(16), None])
        elif c < 0.42:
            lmin = rng.choice([1, 1, 5])
            ops.append(["snl", "A", rng.randrange(1, 6), lmin, max(lmin, rng.choice([lmin, 4, 12])),
                        rng.randrange(1 << 20)])
        elif c < 0.50:
            ops.append(["bsy", "A", rng.randrange(n), rng.randrange(2)])
        elif c < 0.60:
            ops.append(rng.choice([["send", "A", rng.randrange(n + 1), ["abs", rng.randrange(0, 12)]],
                                   ["sendto", "A", 0, 32, ["abs", rng.randrange(0, 12)]]]))
        # -- the leading PDU: Link MIU - x octets of data (the socket's own limit may be lower)
        big = ["abs", link - x]
        c = rng.random()
        if c < 0.45:
            ops.append(["sendto", "A", 0, 32, big])
        elif c < 0.85 and lead_conn is not None:
            ops.append(["send", "A", lead_conn, big])
        else:
            ops.append(["send", "A", rng.randrange(n), big])      # piggybacks that connection's acknowledgement
        ops.append(["pump", 1])
        if rng.random() < 0.8:
            ops.append(["drain", "B"])
        x = (x + step) % VACK_SWEEP
    case["ops"] = ops
    return case


def gen_case(rng, miu_b, agf_a, profile):
    """A is the sender this job aims at: B announces miu_b, A aggregates or not; B->A is monitored all the same"""
    case = {"miu_a": rng.choice([2175, 2175, 248, rng.choice(SPECIAL), rng.randrange(128, 2176)]), "miu_b": miu_b,
            "agf_a": agf_a, "agf_b": rng.randrange(2), "rseed": rng.randrange(1 << 30), "profile": profile}
    if profile == "vack":
        return gen_vack(rng, case)
    setup, ops = [], []
    ends = ("A", "B")
    nconn = {"sd": rng.choice([0, 0, 1]), "edge": rng.choice([1, 2, 3]), "mix": rng.choice([0, 1, 2, 4, 6])}[profile]
    for i in range(nconn):
        setup.append(["conn", rng.choice(ends), 63 - i, some_miu(rng), rng.choice([1, 1, 2, 4, 15, rng.randrange(0, 16)]),
                      some_miu(rng), rng.choice([1, 1, 2, 4, 15, rng.randrange(0, 16)])])
    for end in ends:
        for _ in range({"sd": rng.choice([0, 1]), "edge": rng.choice([1, 2]), "mix": rng.choice([0, 1, 3])}[profile]):
            setup.append(["ldl", end])
        if profile != "sd" and rng.random() < 0.6:
            setup.append(["idle", end])
        if profile == "mix" and rng.random() < 0.5:
            setup.append(["listen", end, 50, some_miu(rng), rng.choice([1, 3, 15]), 4])
        if rng.random() < 0.06:
            setup.append(["raw", end])
    case["setup"] = setup

    def end_():
        return "A" if rng.random() < 0.7 else "B"

    def op_send():
        return ["send", end_(), rng.randrange(8), near(rng)]

    def op_sendto():
        return ["sendto", end_(), rng.randrange(4), rng.choice([16, 32, 33, 34, 63, rng.randrange(2, 64)]), near(rng)]

    def op_snl():
        n = rng.choice([1, 2, 20, 31, 32, 33, 34, 40, 65, 100, 250, 500, rng.randrange(1, 501)])
        lmin = rng.choice([1, 1, 5, 20])
        return ["snl", end_(), n, lmin, max(lmin, rng.choice([lmin, 12, 60])), rng.randrange(1 << 20)]

    def op_resolve():
        return ["resolve", end_(), rng.choice([1, 2, 30, 58, 59, 60, rng.randrange(1, 61)]), len(ops)]

    def op_cinj():
        sel = rng.choice([["sock", ["ldl", "idle"], rng.randrange(4)], ["sock", ["listen"], rng.randrange(3)],
                          ["sap", 1], ["sap", rng.randrange(2, 64)]])
        sn = None
        if sel == ["sap", 1]:
            sn = name_of(rng.randrange(100), rng.randrange(14, 40)) if rng.random() < 0.8 else None
        # source SAP of the virtual peer: distinct per operation where possible (keeps the connection MIU oracle tight)
        return ["cinj", end_(), sel, (44, 45, 46, 47, 48, 49, 51, 52, 53, 54, 55, 56)[len(ops) % 12], some_miu(rng),
                rng.randrange(16), sn]

    def op_pinj():
        t = rng.choice(["I", "I", "I", "RR", "RNR", "DISC", "DM", "UI", "FRMR"])
        return ["pinj", end_(), rng.randrange(8), t, rng.choice([0, 0, 0, 1, 5]), rng.randrange(16),
                rng.choice([0, 1, 100, 128, 129, 2175])]

    if profile == "sd":
        for _ in range(rng.randrange(1, 5)):
            c = rng.random()
            if c < 0.45:
                ops.append(op_snl())
            elif c < 0.9:
                e = end_()
                for _ in range(rng.choice([1, 2, 3, 5, 12, 40])):
                    o = op_resolve()
                    o[1] = e
                    ops.append(o)
            else:
                ops.append(op_sendto())
            if rng.random() < 0.4:
                ops.append(["pump", rng.randrange(1, 4)])
    elif profile == "edge":
        for _ in range(rng.randrange(2, 7)):
            e = end_()
            # something that is due without a size test ...
            c = rng.random()
            if c < 0.35:
                o = op_cinj()
                o[1] = e
                o[2] = ["sock", ["ldl", "idle"], rng.randrange(4)]
                ops.append(o)
            elif c < 0.7:
                # an acknowledgement: the other end sends, this end receives
                other = "B" if e == "A" else "A"
                for _ in range(rng.randrange(1, 4)):
                    ops.append(["send", other, rng.randrange(8), ["abs", rng.randrange(1, 30)]])
                ops.append(["pump", 1])
                ops.append(["drain", e])
            elif c < 0.85:
                ops.append(["bsy", e, rng.randrange(8), rng.randrange(2)])
            else:
                for _ in range(3):
                    o = op_resolve()
                    o[1] = e
                    o[2] = rng.choice([58, 59, 60, 57, rng.randrange(40, 61)])
                    ops.append(o)
            # ... and a first PDU that nearly fills the frame
            big = ["max", rng.randrange(0, 11)]
            ops.append(rng.choice([["send", e, rng.randrange(8), big], ["sendto", e, rng.randrange(4), 33, big]]))
            ops.append(["pump", rng.randrange(1, 3)])
    else:
        for _ in range(rng.randrange(8, 40)):
            c = rng.random()
            if c < 0.28:
                ops.append(op_send())
            elif c < 0.42:
                ops.append(op_sendto())
            elif c < 0.50:
                ops.append(op_snl())
            elif c < 0.60:
                ops.append(op_resolve())
            elif c < 0.68:
                ops.append(op_cinj())
            elif c < 0.71:
                ops.append(["accept", end_()])
            elif c < 0.78:
                ops.append(op_pinj())
            elif c < 0.86:
                ops.append(["drain", end_()])
            elif c < 0.89:
                ops.append(["bsy", end_(), rng.randrange(8), rng.randrange(2)])
            elif c < 0.91:
                ops.append(["close", end_(), rng.randrange(8)])
            elif c < 0.93:
                ops.append(["rawsend", end_(), 0, rng.randrange(2, 64), rng.choice([0, 10, 130, 2200])])
            else:
                ops.append(["pump", rng.randrange(1, 4)])
    case["ops"] = ops
    return case


# ---------------------------------------------------------------------------------------------
def _contract():
    from vf.core import contracts
    contracts.install_pdu_length_contract()
    return contracts


def execute(case, R):
    h = History(case, R)
    ok = h.run()
    return ok, h


def run(desc, R, rng):
    contracts = _contract()
    c0 = contracts.COUNTS.get("pdu_len_contract", 0)
    t_end = time.time() + desc.get("timeout", 240) * 0.8
    for n, (miu_b, agf_a, profile) in enumerate(desc["jobs"]):
        if time.time() > t_end:
            R.inconc("shard ran out of its time budget after %d of %d histories" % (n, len(desc["jobs"])))
            break
        case = gen_case(rng, miu_b, agf_a, profile)
        try:
            ok, h = execute(case, R)
        except contracts.ContractBroken as e:
            R.case(case, nontrivial=True)
            R.violation("len/" + str(e).split("(")[1].split(")")[0], "len(pdu) != len(encode(pdu)) while a frame was "
                        "built: %s" % e, case)
            continue
        R.case([case["miu_a"], case["miu_b"], case["agf_a"], case["agf_b"], case["setup"], case["ops"]], nontrivial=ok)
        R.count("histories")
        R.count("histories_" + profile)
        R.seen("miu_values_announced", case["miu_a"])
        R.seen("miu_values_announced", case["miu_b"])
        if h.aborted is not None and isinstance(h.aborted, contracts.ContractBroken):
            R.violation("len/" + str(h.aborted).split("(")[1].split(")")[0], "len(pdu) != len(encode(pdu)) while a "
                        "frame was built: %s" % h.aborted, case)
        if n < 1:
            R.sample({"miu_a": case["miu_a"], "miu_b": case["miu_b"], "agf_a": case["agf_a"], "profile": profile,
                      "setup": case["setup"], "ops": case["ops"][:6], "frames": h.mon.frames})
    R.count("pdu_len_contract", contracts.COUNTS.get("pdu_len_contract", 0) - c0)


def replay(case, R):
    contracts = _contract()
    try:
        ok, h = execute(case, R)
    except contracts.ContractBroken as e:
        R.violation("len/" + str(e).split("(")[1].split(")")[0], "len(pdu) != len(encode(pdu)): %s" % e, case)
        return
    if h.aborted is not None and isinstance(h.aborted, contracts.ContractBroken):
        R.violation("len/" + str(h.aborted).split("(")[1].split(")")[0], "len(pdu) != len(encode(pdu)): %s" % h.aborted, case)
    R.case(case, nontrivial=ok)
