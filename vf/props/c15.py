"""C15 - the frontend never lets two threads drive the device at once.

Lock-discipline monitor (the Python analogue of a race detector) on the real nfc.clf.ContactlessFrontend:

  * clf.lock is the real threading.Lock the frontend created, wrapped in an owner-tracking lock (OwnerLock) with
    the same acquire/release/with protocol (blocking and re-entrancy semantics are those of the wrapped lock).
  * clf.device is a recording proxy (DeviceProxy) around a slow fake driver (FakeDevice: every method yields
    inside, where real hardware I/O blocks).  nfc.clf.device.connect is patched to return it.
  * at every proxy entry ("driver call"):
        (1) the calling thread owns the frontend lock           -> unlocked-driver-call/<method>@<function>
        (2) no other driver call is in progress                 -> overlap/<unlocked method>@<function>
        (3) the device was not closed by a completed close()    -> use-after-close/<method>@<function>
  * call-site accounting: every syntactic `self.device.<method>` call / bound-method reference (and the
    `device.connect(...)` call) in nfc/clf/__init__.py of the tree under test is enumerated with ast; the proxy
    records from the caller's frame which of them executed.  Unobserved sites make the run INCONCLUSIVE.

Workloads: directed single-thread drive through every public entry point with a second "prober" application
thread (a) calling clf.max_recv_data_size while the directed thread is inside each driver call and (b) calling
clf.close() between the evaluation of `self.device` and the call, both with a state handshake (no wall clock);
stress rounds with 4-12 threads, random entry points, sys.monitoring LINE yield injection, close/open races.

Strengthened (wave 6):
  * pre-acquire probe: at the directed thread's k-th acquisition of the frontend lock (every k of every scenario)
    the prober runs close() (second pass: close()+open()) to completion BEFORE the acquisition proceeds; a device
    reference or `is None` test taken before the lock is then deterministic.  Besides the three clauses above the
    documented outcome of sense/listen/exchange/size query on a closed frontend (IOError ENODEV) is demanded when
    the close completed before the operation's first lock acquisition -> closed-before-lock/<operation>/<returned|
    driver-error|internal-error>.
  * duration / hand-off: the caller must still own the lock when the driver method returns
    (lock-lost-during-driver-call/<method>@<function>); a release by a thread that is not the owner while the owner
    is inside the driver is a violation by itself (lock-released-by-non-owner/<function>); releasing a lock that is
    not locked is judged as lock-protocol/release-unlocked-lock@<function>.  Prober operations inside every driver
    call: size query, listen(1 ms), open, exchange, sense (timed waiters are waited for: no scheduling luck).
  * driver fault enumeration: (static site, n-th call, kind in IOError(EIO)/TimeoutError/TransmissionError/
    BrokenLinkError) incl. close() raising and device.connect failing, prober blocked on the lock at the moment of
    the fault, then the same frontend is used further with the prober active; random faults in stress.
  * static scan over all of nfc/**/*.py (X.device.<method>, aliases of X.device, getattr(X.device, ..),
    X.device.<attr>.<call>()); coverage criterion = site observed WITH the lock held.
"""
import ast
import errno
import itertools
import os
import queue
import random
import sys
import threading
import time as _time
import zlib

ID = "C15"
LEVEL = "exploration"
RULE = ("cases = (a) directed scenarios (entry point x field situation x callback results) each run once with a "
        "size-query prober inside every driver call, once per other prober operation (listen/open/exchange/sense), once "
        "per driver-attribute fetch k with a close() prober between fetch and call, once per lock acquisition k with "
        "close() and once with close()+open() completed right before the acquisition, and once per (static driver "
        "call site, n-th call, fault kind) with the same frontend used further afterwards; (b) stress rounds (threads, "
        "calls, yield probability, switch interval, driver faults drawn from the PRNG). A directed case is distinct by "
        "(scenario, parameters, probe, position, fault); a stress round by its schedule signature (crc of (thread, "
        "function, line) at thread switches inside nfc/clf/__init__.py); non-trivial if at least one driver call was "
        "judged in it")
ASSUMPTIONS = [
    "the fake driver's yields (time.sleep(0)/short sleeps inside every method) stand for blocking hardware I/O",
    "the frontend keeps its lock in the attribute `lock` and its driver in `device` (otherwise: inconclusive)",
    "sleeps of nfc.clf / nfc.llcp.llc are compressed to <= 0.2 ms (timing only, no effect on lock discipline)",
    "the device object handed to other code as a plain argument (f(self.device)) is not followed statically; its "
    "calls are still judged dynamically (counted as dynamic site)",
    "str()/format() of the device and plain attribute reads (self.device is None) are not driver calls",
    "the clause closed-before-lock/* rests on the documented behaviour of the frontend (IOError ENODEV without a "
    "device), applied only when another thread's close() completed before the operation's first lock acquisition",
    "a driver close() that raises something else than IOError (propagated by the frontend) does not count as a "
    "completed close",
]
REQUIRED = ["driver_calls", "driver_calls_with_lock_held", "probe_gates", "close_probe_runs", "stress_rounds",
            "stress_calls", "thread_switches", "max_sites_covered",
            "probe_prober_blocked_on_lock", "close_probe_fired", "lock_contended_acquisitions",
            "pre_acquire_close_fired", "pre_acquire_reopen_fired", "pre_acquire_enodev_outcomes_judged",
            "exit_owner_checks", "lock_releases_checked", "max_lock_sites_reached",
            "prober_op/listen", "prober_op/open", "prober_op/exchange", "prober_op/sense", "prober_op/size",
            "fault_runs_fired", "fault_kind/IOError", "fault_kind/TimeoutError", "fault_kind/TransmissionError",
            "fault_kind/BrokenLinkError", "fault_at/close", "fault_at/device.connect", "fault_aftermath_driver_calls",
            "stress_faults_injected"]

TOOL_ID = 3
_get_ident = threading.get_ident


def plan(tier, seed):
    if tier == "quick":
        return [{"nshards": 8, "rounds": 16, "threads": [4, 12], "calls": [25, 100], "timeout": 240}
                for _ in range(8)]
    return [{"nshards": 16, "rounds": 120, "threads": [4, 12], "calls": [60, 400], "timeout": 1500}
            for _ in range(16)]


# =============================================================================================================
# owner-tracking lock
# =============================================================================================================
class HarnessStop(BaseException):
    """raised by the harness inside a workload thread to stop it (never a verdict by itself)"""


def _nfc_frame(depth):
    """innermost frame at or above sys._getframe(depth) that executes code of the nfc package under test"""
    try:
        f = sys._getframe(depth + 1)
    except ValueError:
        return None
    n = 0
    while f is not None and n < 8:
        fn = f.f_code.co_filename
        if "/nfc/" in fn.replace("\\", "/") and not fn.startswith("/verif/"):
            return f
        f = f.f_back
        n += 1
    return None


def _frame_func(f):
    if f is None:
        return "?"
    fn = f.f_code.co_filename.replace("\\", "/")
    if fn.endswith("/nfc/clf/__init__.py"):
        return _frontend_func(f.f_code)
    return "%s:%s" % (fn[fn.rfind("/nfc/") + 1:], f.f_code.co_name)


class OwnerLock(object):
    """Stand-in for the frontend lock that knows who holds it.  All blocking behaviour is that of the wrapped
    real lock (a plain Lock still dead-locks on re-acquisition, an RLock is re-entrant)."""

    def __init__(self, real, mon=None, clf=None):
        self.real = real
        self.kind = type(real).__name__
        self.mon = mon
        self.clf = clf
        self.owner = None
        self.depth = 0
        self.waiters = 0
        self.waiters_untimed = 0
        self.acquisitions = 0
        self.contended = 0
        self.first_anomaly = None       # function of the first stray release: later anomalies of this lock follow from it
        self._mu = threading.Lock()

    def acquire(self, blocking=True, timeout=-1):
        me = _get_ident()
        mon = self.mon
        if mon is not None:
            mon.before_acquire(self, me, blocking, timeout)
        got = self.real.acquire(False)
        if not got:
            if not blocking:
                return False
            untimed = isinstance(timeout, (int, float)) and timeout < 0
            with self._mu:
                self.waiters += 1
                self.contended += 1
                if untimed:
                    self.waiters_untimed += 1
            try:
                got = self.real.acquire(True, timeout)
            finally:
                with self._mu:
                    self.waiters -= 1
                    if untimed:
                        self.waiters_untimed -= 1
            if not got:
                return False
        if self.owner == me:
            self.depth += 1
        else:
            self.owner = me
            self.depth = 1
        self.acquisitions += 1
        return True

    def release(self):
        me = _get_ident()
        mon = self.mon
        owner = self.owner
        if mon is not None:
            mon.before_release(self, me, owner)
        if owner == me:
            self.depth -= 1
            if self.depth <= 0:
                self.owner = None
                self.depth = 0
        elif self.kind != "RLock":
            self.owner = None
            self.depth = 0
        try:
            self.real.release()
        except RuntimeError as e:
            if mon is not None:
                mon.release_error(self, me, e)
            raise

    def locked(self):
        f = getattr(self.real, "locked", None)
        return f() if f else self.owner is not None

    def __enter__(self):
        self.acquire()
        return self

    def __exit__(self, *a):
        self.release()


# =============================================================================================================
# static call sites
# =============================================================================================================
_PREFILTER = None


def _device_expr(node, aliases=()):
    """X.device for an object X (not the module nfc.clf.device) or a local alias of it"""
    if isinstance(node, ast.Name):
        return node.id in aliases
    if not (isinstance(node, ast.Attribute) and node.attr == "device"):
        return False
    root = node.value
    while isinstance(root, ast.Attribute):
        root = root.value
    if isinstance(root, ast.Name) and root.id == "nfc":
        return False
    return True


class Sites(object):
    """every syntactic call into a device driver object in the nfc package: X.device.<method>(..) and bound-method
    references, calls through local aliases of X.device, getattr(X.device, ..), X.device.<attr>.<call>(..), the
    device.connect(..) call of the frontend module; plus the lock acquisition sites of the frontend module"""

    def __init__(self, path, device_methods):
        import re
        self.path = path
        self.items = []
        self.lock_sites = []
        self.files = {}
        self.unparsed = []
        methods = set(device_methods)
        root = os.path.dirname(os.path.dirname(os.path.abspath(path)))
        pre = re.compile(r"(?<!nfc\.clf)\.device\b")
        todo = []
        for d, dirs, files in os.walk(root):
            dirs.sort()
            for fn in sorted(files):
                if fn.endswith(".py"):
                    todo.append(os.path.join(d, fn))
        self.scanned = 0
        for fp in todo:
            try:
                with open(fp, "rb") as f:
                    raw = f.read()
            except OSError:
                self.unparsed.append(fp)
                continue
            self.scanned += 1
            if fp != path and not pre.search(raw.decode("utf-8", "replace")):
                continue
            try:
                tree = ast.parse(raw)
            except SyntaxError:
                self.unparsed.append(fp)
                continue
            rel = "" if fp == path else fp[len(root) - 3:].replace(os.sep, "/") + ":"
            self._cur = (fp, rel)
            self._walk(tree, [], None, methods, self._aliases(tree))
        self.by_file = {}
        for s in self.items:
            self.by_file.setdefault(s["file"], {}).setdefault(s["method"], []).append(s)

    @staticmethod
    def _aliases(scope):
        """names bound to X.device anywhere in this scope (flow-insensitive)"""
        out = set()
        for n in ast.walk(scope):
            if isinstance(n, ast.Assign) and _device_expr(n.value) and isinstance(n.value, ast.Attribute):
                for t in n.targets:
                    if isinstance(t, ast.Name):
                        out.add(t.id)
            elif isinstance(n, (ast.AnnAssign, ast.NamedExpr)) and n.value is not None \
                    and isinstance(n.value, ast.Attribute) and _device_expr(n.value) and isinstance(n.target, ast.Name):
                out.add(n.target.id)
        return out

    def _walk(self, node, stack, parent, methods, aliases):
        if isinstance(node, (ast.FunctionDef, ast.AsyncFunctionDef)):
            if not stack or (len(stack) == 1 and stack[0][:1].isupper()):
                aliases = self._aliases(node)        # per outermost function (closures see its aliases)
            stack = stack + [node.name]
        elif isinstance(node, ast.ClassDef):
            stack = stack + [node.name]
        if isinstance(node, ast.Attribute) and isinstance(node.ctx, ast.Load):
            v = node.value
            is_call = isinstance(parent, ast.Call) and parent.func is node
            if isinstance(v, ast.Attribute) and _device_expr(v):
                selfdev = isinstance(v.value, ast.Name) and v.value.id == "self"
                if node.attr in methods or (is_call and selfdev):
                    self._add(node.attr, stack, node, "call" if is_call else "ref")
            elif isinstance(v, ast.Name) and v.id in aliases and (node.attr in methods or is_call):
                self._add(node.attr, stack, node, "alias-call" if is_call else "alias-ref")
            elif isinstance(v, ast.Name) and v.id == "device" and node.attr == "connect" and is_call \
                    and self._cur[0] == self.path:
                self._add("device.connect", stack, node, "call")
            elif is_call and isinstance(v, ast.Attribute):
                # X.device.<attr>[.<attr>].<call>(): a call into the driver's innards that no proxy method sees
                inner, chain = v, [node.attr]
                while isinstance(inner, ast.Attribute) and not _device_expr(inner, aliases):
                    chain.append(inner.attr)
                    inner = inner.value
                if isinstance(inner, (ast.Attribute, ast.Name)) and _device_expr(inner, aliases) and len(chain) > 1:
                    self._add(".".join(reversed(chain)), stack, node, "chain")
            if isinstance(v, ast.Attribute) and v.attr == "lock" and isinstance(v.value, ast.Name) \
                    and v.value.id == "self" and node.attr == "acquire" and is_call and self._cur[0] == self.path:
                self._add_lock(stack, node)
        elif isinstance(node, ast.Call) and isinstance(node.func, ast.Name) and node.func.id == "getattr" \
                and node.args and _device_expr(node.args[0], aliases):
            self._add("*getattr", stack, node, "getattr")
        elif isinstance(node, (ast.With, ast.AsyncWith)) and self._cur[0] == self.path:
            for it in node.items:
                e = it.context_expr
                if isinstance(e, ast.Attribute) and e.attr == "lock" and isinstance(e.value, ast.Name) \
                        and e.value.id == "self":
                    self._add_lock(stack, e)
        for child in ast.iter_child_nodes(node):
            self._walk(child, stack, node, methods, aliases)

    def _names(self, stack):
        st = list(stack)
        if self._cur[0] == self.path and len(st) > 1 and st[0][:1].isupper():
            st = st[1:]                                  # frontend module: ids without the class name (as before)
        return st

    def _add(self, method, stack, node, kind):
        st = self._names(stack)
        fp, rel = self._cur
        if rel:
            func = rel + (st[-1] if st else "<module>")     # as Sites.resolve names frames of other modules
        else:
            func = st[0] if st else "<module>"
        self.items.append({"id": "%s@%s%s:L%d" % (method, rel, ".".join(st) or "<module>", node.lineno),
                           "method": method, "func": func, "lo": node.lineno, "file": fp,
                           "hi": getattr(node, "end_lineno", node.lineno) or node.lineno,
                           "kind": kind, "static": True})

    def _add_lock(self, stack, node):
        st = self._names(stack)
        self.lock_sites.append({"id": "lock@%s:L%d" % (".".join(st) or "<module>", node.lineno),
                                "func": st[0] if st else "<module>", "lo": node.lineno,
                                "hi": getattr(node, "end_lineno", node.lineno) or node.lineno})

    def lock_site(self, frame):
        if frame is None or frame.f_code.co_filename != self.path:
            return None
        line = frame.f_lineno
        for s in self.lock_sites:
            if s["lo"] <= line <= s["hi"]:
                return s["id"]
        return None

    def resolve(self, method, frame):
        code = frame.f_code
        fn = code.co_filename
        tab = self.by_file.get(fn)
        if tab is not None or fn == self.path:
            line = frame.f_lineno
            for key in (method, "*getattr"):
                for s in (tab or {}).get(key, ()):
                    if s["lo"] <= line <= s["hi"]:
                        return s
        if fn == self.path:
            func = _frontend_func(code)
            return {"id": "%s@%s:unlisted" % (method, func), "method": method, "func": func, "static": False,
                    "unlisted": True}
        fn = fn.replace("\\", "/")
        rel = fn[fn.rfind("/nfc/") + 1:] if "/nfc/" in fn else os.path.basename(fn)
        func = "%s:%s" % (rel, code.co_name)
        return {"id": "%s@%s" % (method, func), "method": method, "func": func, "static": False}


def _frontend_func(code):
    qual = getattr(code, "co_qualname", code.co_name)
    parts = [p for p in qual.split(".") if p != "<locals>"]
    if len(parts) > 1 and parts[0][:1].isupper():
        parts = parts[1:]
    return parts[0] if parts else code.co_name


# =============================================================================================================
# monitor
# =============================================================================================================
ENODEV_OPS = ("sense", "listen", "exchange", "max_send_data_size", "max_recv_data_size")


class Monitor(object):
    MAX_KEPT = 40

    def __init__(self, sites):
        self.sites = sites
        self.mu = threading.Lock()
        self.clf = None
        self.harness = None
        self.active = {}
        self.in_driver = 0
        self.max_conc = 0
        self.calls = 0
        self.calls_locked = 0
        self.untracked = 0
        self.per_method = {}
        self.per_site = {}
        self.sites_locked = set()
        self.sites_seen = set()
        self.dynamic_sites = set()
        self.violations = []            # kept records
        self.viol_counts = {}           # sig -> n
        self.trace = []                 # first driver calls (evidence sample)
        self.prober_ident = None
        self.prober_in_driver = False
        self.exit_checks = 0
        self.releases_checked = 0
        self.foreign_releases = 0
        self.foreign_releases_owner_in_driver = 0
        self.release_errors = 0
        self.lock_leaks = []
        self.ops = {}                   # thread ident -> stack of public frontend operations in progress
        self.enodev_judged = 0
        self.locks = []
        self._tok = itertools.count(1)

    def lock_of(self, clf):
        lk = getattr(clf if clf is not None else self.clf, "lock", None)
        return lk if isinstance(lk, OwnerLock) else None

    def frontend_lock(self):
        return self.lock_of(self.clf)

    def clf_in_driver(self, ident):
        for r in self.active.values():
            if r["ident"] == ident:
                return r["clf"]
        return None

    # -- driver calls -------------------------------------------------------------------------
    def enter(self, proxy, method, site, clf=None):
        me = _get_ident()
        if clf is None:
            clf = self.clf
        lk = self.lock_of(clf)
        owned = lk is not None and lk.owner == me
        tname = threading.current_thread().name
        st = self.ops.get(me)
        if st:
            st[-1]["drv"] += 1
        with self.mu:
            self.calls += 1
            tok = next(self._tok)
            self.per_method[method] = self.per_method.get(method, 0) + 1
            self.per_site[site["id"]] = self.per_site.get(site["id"], 0) + 1
            self.sites_seen.add(site["id"])
            if not site.get("static"):
                self.dynamic_sites.add(site["id"])
            if lk is None:
                self.untracked += 1
            elif owned:
                self.calls_locked += 1
                self.sites_locked.add(site["id"])
            # driver calls in progress on the same frontend (a scenario may use several frontends, each with its own
            # device and lock; the property speaks about one frontend)
            others = [o["rec"] for o in self.active.values() if o["clf"] is clf or o["clf"] is None or clf is None]
            rec = {"method": method, "func": site["func"], "site": site["id"], "thread": tname, "locked": owned}
            self.active[tok] = {"ident": me, "clf": clf, "lock": lk, "rec": rec}
            self.in_driver += 1
            if self.in_driver > self.max_conc:
                self.max_conc = self.in_driver
            if len(self.trace) < 14:
                self.trace.append("%s %s %s" % (tname, site["id"], "locked" if owned else "NOT-LOCKED"))
            if me == self.prober_ident:
                self.prober_in_driver = True
            if lk is not None and not owned:
                self._viol("unlocked-driver-call/%s@%s" % (method, site["func"]),
                           "driver method %s() entered from %s (thread %s) while the calling thread does not hold "
                           "the frontend lock (lock owner: %s)" % (
                               method, site["id"], tname, "nobody" if lk.owner is None else "another thread"), rec, None)
            if others:
                culprit = rec if not owned else next((o for o in others if not o["locked"]), None)
                if culprit is None:
                    sig = "overlap/%s@%s/all-callers-claim-the-lock" % (method, site["func"])
                else:
                    sig = "overlap/%s@%s" % (culprit["method"], culprit["func"])
                self._viol(sig, "two driver calls overlap: %s() from %s (thread %s) entered while %s in progress" % (
                    method, site["id"], tname,
                    ", ".join("%s() from %s (thread %s, %s)" % (o["method"], o["site"], o["thread"],
                                                                "lock held" if o["locked"] else "NO lock")
                              for o in others)), rec, others)
            if proxy is not None and proxy.closed:
                self._viol("use-after-close/%s@%s" % (method, site["func"]),
                           "driver method %s() from %s (thread %s) runs on a device object that a completed close() "
                           "(thread %s) has already shut down" % (method, site["id"], tname, proxy.closed_by),
                           rec, None)
        return tok

    def exit(self, proxy, method, tok, exc=None):
        me = _get_ident()
        with self.mu:
            self.in_driver -= 1
            a = self.active.pop(tok, None)
            if a is not None and a["lock"] is not None and a["rec"]["locked"]:
                self.exit_checks += 1
                if a["lock"].owner != me:
                    rec = a["rec"]
                    self._viol("lock-lost-during-driver-call/%s@%s" % (method, rec["func"]),
                               "driver method %s() from %s (thread %s) was entered with the frontend lock held, but when "
                               "it returned the calling thread did not own the lock any more (owner now: %s): the lock "
                               "did not cover the duration of the driver call" % (
                                   method, rec["site"], rec["thread"],
                                   "nobody" if a["lock"].owner is None else "another thread"), rec, None)
            if method == "close" and proxy is not None and (exc is None or isinstance(exc, IOError)):
                proxy.closed = True
                proxy.closed_by = threading.current_thread().name

    # -- lock protocol ------------------------------------------------------------------------
    def before_acquire(self, lock, me, blocking, timeout):
        if lock.owner == me and lock.kind != "RLock" and blocking and isinstance(timeout, (int, float)) and timeout < 0:
            # certain self-deadlock: the thread still holds the (non re-entrant) lock - it was leaked on some path
            func = _frame_func(_nfc_frame(0))
            with self.mu:
                self.lock_leaks.append(func)
            lock.owner = None
            lock.depth = 0
            try:
                lock.real.release()             # let the other threads go on; this run is inconclusive
            except RuntimeError:
                pass
            raise HarnessStop("thread %s acquires the frontend lock in %s while it still holds it (lock leaked)" % (
                threading.current_thread().name, func))
        h = self.harness
        if h is not None and me == h.main_ident:
            h.on_acquire(lock, me)

    def before_release(self, lock, me, owner):
        if owner == me:
            self.releases_checked += 1      # the normal case; an evidence counter only, no mutex needed
            return
        with self.mu:
            self.releases_checked += 1
            if owner is None:
                return
            self.foreign_releases += 1
            func = _frame_func(_nfc_frame(0))
            if lock.first_anomaly is None:
                lock.first_anomaly = func
            inside = [a["rec"] for a in self.active.values() if a["ident"] == owner and a["lock"] is lock]
            if not inside:
                return
            self.foreign_releases_owner_in_driver += 1
            culprit = lock.first_anomaly        # ownership is exact up to the first stray release of this lock
            rec = {"method": "lock.release", "func": func, "site": "lock.release@" + func,
                   "thread": threading.current_thread().name, "locked": False}
            self._viol("lock-released-by-non-owner/%s" % culprit,
                       "thread %s releases the frontend lock in %s although it does not own it, while the owner (thread "
                       "%s) is inside the driver method %s() from %s: the owner's driver call is no longer protected "
                       "(first stray release of this lock: in %s)" % (
                           rec["thread"], func, inside[0]["thread"], inside[0]["method"], inside[0]["site"], culprit),
                       rec, inside)

    def release_error(self, lock, me, e):
        func = _frame_func(_nfc_frame(0))
        with self.mu:
            self.release_errors += 1
            if lock.first_anomaly is None:
                lock.first_anomaly = func
            culprit = lock.first_anomaly
            rec = {"method": "lock.release", "func": func, "site": "lock.release@" + func,
                   "thread": threading.current_thread().name, "locked": False}
            kind = "release-unlocked-lock" if "unlocked" in str(e) else "release-unowned-lock"
            self._viol("lock-protocol/%s@%s" % (kind, culprit),
                       "thread %s releases the frontend lock in %s but the lock is not held (%s: %s): the thread did not "
                       "hold the lock it believed to hold (released twice, or taken away by another thread's release; "
                       "first stray release of this lock: in %s)" % (
                           rec["thread"], func, type(e).__name__, e, culprit), rec, None)

    # -- public operations (outcome on a closed frontend) ---------------------------------------
    def op_begin(self, clf, name):
        rec = {"op": name, "clf": clf, "acq": 0, "drv": 0, "expect": None}
        self.ops.setdefault(_get_ident(), []).append(rec)
        return rec

    def op_end(self, rec, exc):
        st = self.ops.get(_get_ident())
        if st and st[-1] is rec:
            st.pop()
        if rec["expect"] is None or isinstance(exc, HarnessStop):
            return
        with self.mu:
            self.enodev_judged += 1
            if isinstance(exc, IOError) and exc.errno == errno.ENODEV:
                return
            if exc is None:
                out = "returned"
            elif isinstance(exc, IOError) or type(exc).__module__.startswith("nfc."):
                out = "driver-error"            # the operation went on to use a driver and reports what it said
            else:
                out = "internal-error"          # e.g. AttributeError on the vanished device reference
            r = {"method": rec["op"], "func": rec["op"], "site": rec["expect"],
                 "thread": threading.current_thread().name, "locked": False}
            self._viol("closed-before-lock/%s/%s" % (rec["op"], out),
                       "another thread's close() completed before %s() made its first acquisition of the frontend lock "
                       "(at %s); the documented outcome is IOError(ENODEV), observed: %s - the device test or reference "
                       "was not taken under the lock" % (
                           rec["op"], rec["expect"], "normal return" if exc is None else repr(exc)[:120]), r, None)

    def _viol(self, sig, what, rec, others):
        self.viol_counts[sig] = self.viol_counts.get(sig, 0) + 1
        if self.viol_counts[sig] <= 2 and len(self.violations) < self.MAX_KEPT:
            self.violations.append({"sig": sig, "what": what, "call": dict(rec),
                                    "in_progress": [dict(o) for o in (others or [])]})


# =============================================================================================================
# device proxy
# =============================================================================================================
class DeviceProxy(object):
    """Everything the frontend does with `self.device` passes through here.  Callable attributes are returned as
    wrappers that report entry/exit to the monitor together with the site that fetched them."""

    def __init__(self, mon, real, fetch_hook=None, clf=None, call_hook=None):
        d = object.__getattribute__(self, "__dict__")
        d["_mon"] = mon
        d["_real"] = real
        d["_clf"] = clf
        d["closed"] = False
        d["closed_by"] = None
        d["_fetch_hook"] = fetch_hook
        d["_call_hook"] = call_hook

    def __getattr__(self, name):
        real = self._real
        attr = getattr(real, name)
        if name.startswith("__") or not callable(attr):
            return attr
        mon = self._mon
        site = mon.sites.resolve(name, sys._getframe(1))
        proxy = self
        clf = self._clf
        call_hook = self._call_hook

        def driver_call(*a, **kw):
            tok = mon.enter(proxy, name, site, clf)
            err = None
            try:
                if call_hook is not None:
                    call_hook(proxy, name, site, attr)
                return attr(*a, **kw)
            except BaseException as e:
                err = e
                raise
            finally:
                mon.exit(proxy, name, tok, err)
        driver_call.__name__ = name
        hook = self._fetch_hook
        if hook is not None:
            hook(name, site)
        return driver_call

    def __setattr__(self, name, value):
        if name in ("closed", "closed_by"):
            object.__getattribute__(self, "__dict__")[name] = value
        else:
            setattr(self._real, name, value)

    def __str__(self):
        return str(self._real)

    def __repr__(self):
        return "<proxy of %r>" % (self._real,)


# =============================================================================================================
# fake environment / slow fake driver
# =============================================================================================================
ATR_RES = bytes.fromhex("d501c023cae6b3182afe3dee0000000e3246666d01011103020013040196")
ATR_REQ = bytes.fromhex("d40001fe0102030405060708000000003246666d01011103020013040196")
T2T_UID = bytes.fromhex("08a1b2c3")
T2T_MEM = bytes.fromhex("08a1b2c3" "00000000" "00000000" "e1100600" "0300fe00") + bytes(44)
T3T_IDM = bytes.fromhex("02fe000102030405")
T3T_PMM = bytes.fromhex("03ff4b024f4993ff")
DEP_IDM = bytes.fromhex("01fe0a0b0c0d0e0f")


class FastTime(object):
    """`time` stand-in for nfc.clf / nfc.llcp.llc: real clock, sleeps capped (timing compression only)"""

    def __init__(self, cap=0.0002):
        self.cap = cap

    def time(self):
        return _time.time()

    def sleep(self, s):
        _time.sleep(min(max(s, 0), self.cap))

    def __getattr__(self, name):
        return getattr(_time, name)


class FakeEnv(object):
    """what is in the field / what the peer does; shared by all fake devices of one harness"""

    def __init__(self, rng):
        self.rng = random.Random(rng.getrandbits(64))
        self.random = False           # stress mode: outcomes drawn from self.rng
        self.present = {}             # 'tta': 't2t'|'t1t'|'dep'|'bad-sens'|'raise', 'ttb': True, 'ttf': 't3t'|'dep', 'dep': True
        self.listen = {}              # 'tta'|'ttb'|'ttf'|'dep' -> 'activate'|'unsupported'|'short-atr'
        self.presence_left = None     # tag answers this many more commands (None: stays)
        self.reader_cmds = []         # card emulation: commands of the fake reader, then the field goes away
        self.dep_rounds = 3           # NFC-DEP exchanges the fake peer takes part in before it ends the link
        self.connect_result = "ok"    # 'ok'|'none'|'ioerror'
        self.close_raises = False
        self.io = None                # hook(devname, method) installed by the harness
        self.fault_p = 0.0            # stress mode: probability that a driver call fails (kind drawn from self.rng)

    def pick(self, table, key, choices):
        if self.random:
            return self.rng.choice(choices)
        return table.get(key)

    def tag_alive(self):
        if self.random:
            return self.rng.random() < 0.75
        if self.presence_left is None:
            return True
        if self.presence_left > 0:
            self.presence_left -= 1
            return True
        return False

    def dep_continues(self):
        if self.random:
            return self.rng.random() < 0.7
        if self.dep_rounds > 0:
            self.dep_rounds -= 1
            return True
        return False


_NS = {}


def _ns():
    """classes that need nfc imported (the worker puts the tree under test on sys.path first)"""
    if _NS:
        return _NS
    import nfc
    import nfc.clf
    import nfc.clf.device
    import nfc.dep
    import nfc.llcp
    import nfc.llcp.llc
    import nfc.tag

    RT, LT = nfc.clf.RemoteTarget, nfc.clf.LocalTarget

    class FakeDevice(nfc.clf.device.Device):
        def __init__(self, env, serial):
            self.env = env
            self._path = "fake:%d" % serial
            self._vendor_name = "vf"
            self._device_name = "SlowFake"
            self._chipset_name = "none"
            self.is_closed = False
            self.dep_pni = 0
            self.n = 0

        def _io(self, name):
            self.n += 1
            hook = self.env.io
            if hook is not None:
                hook(self._path, name)
            else:
                _time.sleep(0)

        # -- housekeeping ---------------------------------------------------------------
        def close(self):
            self._io("close")
            self.is_closed = True
            self._io("close")
            if self.env.close_raises:
                raise IOError(errno.EIO, os.strerror(errno.EIO))

        def mute(self):
            self._io("mute")

        def turn_on_led_and_buzzer(self):
            self._io("turn_on_led_and_buzzer")
            self._io("turn_on_led_and_buzzer")

        def turn_off_led_and_buzzer(self):
            self._io("turn_off_led_and_buzzer")
            self._io("turn_off_led_and_buzzer")

        def get_max_send_data_size(self, target):
            self._io("get_max_send_data_size")
            return 290

        def get_max_recv_data_size(self, target):
            self._io("get_max_recv_data_size")
            return 290

        # -- discovery ------------------------------------------------------------------
        def sense_tta(self, target):
            self._io("sense_tta")
            if target.brty != "106A":
                raise nfc.clf.UnsupportedTargetError("fake: only 106A")
            k = self.env.pick(self.env.present, "tta", [None, None, "t2t", "t2t", "dep", "bad-sens", "raise"])
            self._io("sense_tta")
            if k == "t2t":
                if target.sel_req and bytes(target.sel_req) != T2T_UID:
                    return None
                return RT("106A", sens_res=bytearray(b"\x44\x00"), sdd_res=bytearray(T2T_UID),
                          sel_res=bytearray(b"\x00"))
            if k == "t1t":
                return RT("106A", sens_res=bytearray(b"\x00\x0c"), rid_res=bytearray.fromhex("114801020304"))
            if k == "dep":
                return RT("106A", sens_res=bytearray(b"\x01\x01"), sdd_res=bytearray.fromhex("08010203"),
                          sel_res=bytearray(b"\x40"))
            if k == "bad-sens":
                return RT("106A", sens_res=bytearray(b"\x44\x00\x00"), sdd_res=bytearray(T2T_UID),
                          sel_res=bytearray(b"\x00"))
            if k == "raise":
                raise nfc.clf.TransmissionError("fake: crc")
            if k == "ioerror":
                raise IOError(errno.EIO, os.strerror(errno.EIO))
            return None

        def sense_ttb(self, target):
            self._io("sense_ttb")
            k = self.env.pick(self.env.present, "ttb", [None, True])
            self._io("sense_ttb")
            if k:
                return RT(target.brty, sensb_res=bytearray.fromhex("50e5dd3dc900000011008185"))
            return None

        def sense_ttf(self, target):
            self._io("sense_ttf")
            k = self.env.pick(self.env.present, "ttf", [None, "t3t", "dep"])
            self._io("sense_ttf")
            if k == "t3t":
                return RT(target.brty, sensf_res=bytearray(b"\x01" + T3T_IDM + T3T_PMM + b"\x12\xfc"))
            if k == "dep":
                return RT(target.brty, sensf_res=bytearray(b"\x01" + DEP_IDM + bytes(8)))
            return None

        def sense_dep(self, target):
            self._io("sense_dep")
            k = self.env.pick(self.env.present, "dep", [None, None, True])
            self._io("sense_dep")
            if k:
                self.dep_pni = 0
                return RT(target.brty, atr_req=target.atr_req, atr_res=bytearray(ATR_RES))
            return None

        def listen_tta(self, target, timeout):
            self._io("listen_tta")
            k = self.env.pick(self.env.listen, "tta", [None, "activate"])
            self._io("listen_tta")
            if k == "activate":
                return LT("106A", sens_res=target.sens_res, sdd_res=target.sdd_res, sel_res=target.sel_res,
                          tt2_cmd=bytearray(b"\x30\x00"))
            return None

        def listen_ttb(self, target, timeout):
            self._io("listen_ttb")
            k = self.env.pick(self.env.listen, "ttb", ["unsupported", "activate", None])
            if k == "unsupported":
                raise nfc.clf.UnsupportedTargetError("fake: no Type B listen")
            if k == "activate":
                return LT("106B", sensb_req=bytearray(b"\x05\x00\x00"))
            return None

        def listen_ttf(self, target, timeout):
            self._io("listen_ttf")
            k = self.env.pick(self.env.listen, "ttf", [None, "activate"])
            self._io("listen_ttf")
            if k == "activate" and target.sensf_res:
                return LT(target.brty, sensf_req=bytearray.fromhex("00ffff0100"), sensf_res=target.sensf_res,
                          tt3_cmd=bytearray.fromhex("00ffff0100"))
            return None

        def listen_dep(self, target, timeout):
            self._io("listen_dep")
            k = self.env.pick(self.env.listen, "dep", [None, None, "activate", "short-atr"])
            self._io("listen_dep")
            if k in ("activate", "short-atr"):
                self.dep_pni = 0
                atr_req = ATR_REQ if k == "activate" else ATR_REQ[:10]
                return LT("424F", atr_req=bytearray(atr_req), atr_res=target.atr_res, sensf_res=target.sensf_res,
                          dep_req=bytearray.fromhex("d406000000"))
            return None

        # -- data exchange --------------------------------------------------------------
        def send_cmd_recv_rsp(self, target, data, timeout):
            self._io("send_cmd_recv_rsp")
            try:
                return self._rsp(data)
            finally:
                self._io("send_cmd_recv_rsp")

        def _rsp(self, data):
            if data is None:
                raise nfc.clf.TimeoutError("fake: nothing sent")
            d = bytes(data)
            pre = d[:1] if d[:1] == b"\xf0" else b""
            f = d[len(pre):]
            if len(f) >= 3 and f[0] == len(f) and f[1] == 0xD4:        # NFC-DEP request from the local initiator
                code = f[2]
                body = None
                if code == 0x00:
                    body = ATR_RES
                elif code == 0x04:
                    body = bytes([0xD5, 0x05, f[3] if len(f) > 3 else 0])
                elif code == 0x08:
                    body = b"\xd5\x09"
                elif code == 0x0A:
                    body = b"\xd5\x0b"
                elif code == 0x06 and len(f) > 3:
                    pfb = f[3]
                    if pfb >> 5 == 0:                                   # INF: answer SYMM, or DISC to end the link
                        body = bytes([0xD5, 0x07, pfb & 0x03]) + (b"\x00\x00" if self.env.dep_continues() else b"\x01\x40")
                    elif pfb & 0xF0 == 0x80:                            # ATN
                        body = bytes([0xD5, 0x07, pfb])
                if body is None:
                    raise nfc.clf.TimeoutError("fake peer: silent")
                return bytearray(pre + bytes([len(body) + 1]) + body)
            if len(d) == 2 and d[0] == 0x30:                            # T2T READ
                if not self.env.tag_alive():
                    raise nfc.clf.TimeoutError("fake: tag left")
                a = (d[1] * 4) % len(T2T_MEM)
                return bytearray((T2T_MEM + T2T_MEM)[a:a + 16])
            if len(d) >= 2 and d[0] == len(d) and d[1] == 0x00:         # T3T polling
                if not self.env.tag_alive():
                    raise nfc.clf.TimeoutError("fake: tag left")
                return bytearray(b"\x12\x01" + T3T_IDM + T3T_PMM)
            if self.env.random and self.env.rng.random() < 0.2:
                raise nfc.clf.TransmissionError("fake: crc")
            raise nfc.clf.TimeoutError("fake: no answer")

        def send_rsp_recv_cmd(self, target, data, timeout=None):
            self._io("send_rsp_recv_cmd")
            try:
                return self._cmd(target, data)
            finally:
                self._io("send_rsp_recv_cmd")

        def _cmd(self, target, data):
            if target is not None and target.dep_req is not None:       # we are NFC-DEP target: fake initiator
                if data is not None and bytes(data[-2:]) == b"\x01\x40":
                    raise nfc.clf.BrokenLinkError("fake initiator: gone after DISC")
                if not self.env.dep_continues():
                    raise nfc.clf.BrokenLinkError("fake initiator: field off")
                self.dep_pni = (self.dep_pni + 1) & 3
                return bytearray([6, 0xD4, 0x06, self.dep_pni, 0, 0])
            if self.env.random:
                if self.env.rng.random() < 0.4:
                    raise nfc.clf.BrokenLinkError("fake reader: field off")
                return bytearray(self.env.rng.choice([b"\x06\x00\xff\xff\x01\x00", b"\x0a\x04" + T3T_IDM]))
            if self.env.reader_cmds:
                c = self.env.reader_cmds.pop(0)
                if c == "timeout":
                    raise nfc.clf.TimeoutError("fake reader: late")
                return bytearray(c)
            raise nfc.clf.BrokenLinkError("fake reader: field off")

    def make_frontend_class():
        class MonitoredFrontend(nfc.clf.ContactlessFrontend):
            """harness-side subclass: adds nothing but a descriptor that wraps whatever lock the frontend creates
            in an OwnerLock (all methods are the inherited real ones)"""

            def __init__(self, mon, path=None):
                mon.clf = self
                self.__dict__["_vf_mon"] = mon
                super(MonitoredFrontend, self).__init__(path)

            @property
            def lock(self):
                return self.__dict__["_vf_lock"]

            @lock.setter
            def lock(self, real):
                if not isinstance(real, OwnerLock):
                    real = OwnerLock(real, self.__dict__.get("_vf_mon"), self)
                    self.__dict__["_vf_mon"].locks.append(real)
                self.__dict__["_vf_lock"] = real

            # pass-through wrappers: record which public operation a thread is in and how it ended
            def _vf_op(self, name, fn, a, kw):
                mon = self.__dict__["_vf_mon"]
                rec = mon.op_begin(self, name)
                try:
                    r = fn(*a, **kw)
                except BaseException as e:
                    mon.op_end(rec, e)
                    raise
                mon.op_end(rec, None)
                return r

            def sense(self, *a, **kw):
                return self._vf_op("sense", super(MonitoredFrontend, self).sense, a, kw)

            def listen(self, *a, **kw):
                return self._vf_op("listen", super(MonitoredFrontend, self).listen, a, kw)

            def exchange(self, *a, **kw):
                return self._vf_op("exchange", super(MonitoredFrontend, self).exchange, a, kw)

            @property
            def max_send_data_size(self):
                return self._vf_op("max_send_data_size",
                                   lambda: super(MonitoredFrontend, self).max_send_data_size, (), {})

            @property
            def max_recv_data_size(self):
                return self._vf_op("max_recv_data_size",
                                   lambda: super(MonitoredFrontend, self).max_recv_data_size, (), {})
        return MonitoredFrontend

    methods = [n for n, v in vars(nfc.clf.device.Device).items() if callable(v) and not n.startswith("_")]
    _NS.update(nfc=nfc, FakeDevice=FakeDevice, Frontend=make_frontend_class(), RT=RT, LT=LT,
               device_methods=methods, clf_file=nfc.clf.__file__)
    return _NS


_SITES = {}


def static_sites():
    ns = _ns()
    if "s" not in _SITES:
        _SITES["s"] = Sites(ns["clf_file"], ns["device_methods"])
    return _SITES["s"]


# =============================================================================================================
# prober thread and harness
# =============================================================================================================
INSIDE_OPS = ("size", "listen", "open", "exchange", "sense")      # prober operations issued inside driver calls
FAULT_KINDS = ("IOError", "TimeoutError", "TransmissionError", "BrokenLinkError")


def make_fault(nfc, kind):
    if kind == "IOError":
        return IOError(errno.EIO, os.strerror(errno.EIO))
    return getattr(nfc.clf, kind)("fake: injected %s" % kind)


class Prober(object):
    """A second application thread that uses the public frontend API at moments chosen by the directed thread.
    The directed thread waits (state handshake, no wall-clock verdict) until the prober either is inside the
    driver, or waits (without time-out) for the frontend lock, or has finished."""

    def __init__(self, h):
        self.h = h
        self.q = queue.Queue()
        self.idle = True
        self.outcomes = {}
        self.ops = {}
        self.last = None
        self.gates = 0
        self.gate_blocked = 0          # prober had to wait for the lock (what the property promises)
        self.gate_entered = 0          # prober got into the driver / finished while the directed call was active
        self.timeouts = 0
        self.thread = threading.Thread(target=self._loop, name="prober", daemon=True)
        self.thread.start()
        h.mon.prober_ident = self.thread.ident

    def _run(self, op, clf):
        ns = self.h.ns
        if op == "size":
            clf.max_recv_data_size
        elif op == "close":
            clf.close()
        elif op == "reopen":
            clf.close()
            clf.open("fake:prober-reopen")
        elif op == "open":
            clf.open("fake:prober")
        elif op == "listen":
            clf.listen(ns["LT"]("212F", sensf_res=bytearray(b"\x01" + T3T_IDM + T3T_PMM + b"\x12\xfc")), 0.001)
        elif op == "exchange":
            clf.exchange(b"\x30\x00", 0.001)
        elif op == "sense":
            clf.sense(ns["RT"]("106A"))

    def _loop(self):
        while True:
            item = self.q.get()
            if item is None:
                return
            op, clf = item
            try:
                self._run(op, clf if clf is not None else self.h.mon.clf)
                out = "ok"
            except IOError as e:
                out = "IOError(%s)" % errno.errorcode.get(e.errno, e.errno)
            except HarnessStop:
                out = "HarnessStop"
            except Exception as e:                      # outcome, not a verdict
                out = type(e).__name__
            self.outcomes[op + ":" + out] = self.outcomes.get(op + ":" + out, 0) + 1
            self.ops[op] = self.ops.get(op, 0) + 1
            self.last = (op, out)
            self.idle = True

    def gate(self, op, clf=None, complete=False):
        """called by the directed thread from inside a driver call, between attribute fetch and call, or right
        before a lock acquisition.  Returns 'completed' | 'blocked' | 'entered' | 'timeout'."""
        mon = self.h.mon
        me = _get_ident()
        self.gates += 1
        issued = False
        complete = complete or op in ("close", "reopen")
        deadline = _time.monotonic() + 20
        while True:
            lk = mon.lock_of(clf)
            # only a waiter without time-out is certain to stay blocked until this thread releases the lock; a timed
            # waiter (lock.acquire(timeout=..)) is waited for until it has got the lock or has given up
            blocked_by_me = lk is not None and lk.owner == me and lk.waiters_untimed > 0
            if self.idle:
                if issued:
                    self.gate_entered += 1      # the prober ran to completion while the directed thread stood here
                    return "completed"
                self.idle = False
                mon.prober_in_driver = False
                issued = True
                self.q.put((op, clf))
                continue
            if blocked_by_me:
                self.gate_blocked += 1          # the prober (this or a still pending request) waits for the lock the
                return "blocked"                # directed thread holds: what the property promises
            if issued and mon.prober_in_driver and not complete:
                self.gate_entered += 1          # for "close" the directed thread waits until close() has completed
                return "entered"
            # otherwise: an earlier request is still on its way through a free lock - let it finish first
            if _time.monotonic() > deadline:
                self.timeouts += 1
                return "timeout"
            _time.sleep(0)

    def stop(self):
        self.q.put(None)
        self.thread.join(5)
        return not self.thread.is_alive()


class Harness(object):
    """one frontend under observation: monitor, fake environment, patches of nfc.clf.device.connect and time"""

    def __init__(self, rng, probe=None, close_at=None, fault=None):
        ns = _ns()
        self.ns = ns
        self.nfc = ns["nfc"]
        self.mon = Monitor(static_sites())
        self.mon.harness = self
        self.env = FakeEnv(rng)
        self.rng = rng
        self.serial = 0
        self.clf = None
        self.probe = probe                  # None | one of INSIDE_OPS | 'close' | 'pre-close' | 'pre-reopen'
        self.close_at = close_at            # index of the driver attribute fetch / lock acquisition that is probed
        self.fault = fault                  # None | {"site": static site id, "nth": n, "kind": one of FAULT_KINDS}
        self.fault_seen = 0
        self.fault_fired = False
        self.fault_clf = None
        self.fetches = 0
        self.acquires = 0
        self.acq_labels = []                # lock acquisitions of the directed thread: "function:Lline"
        self.seq = []                       # static site ids of the directed thread's driver calls, in order
        self.close_fired = False
        self.fired_at = None
        self.pre_skipped = False
        self.pre_result = None
        self.main_ident = _get_ident()
        self.prober = Prober(self) if probe else None
        self.io_rng = random.Random(rng.getrandbits(32))
        self.stress_io = False
        self.stress_faults = 0
        self.env.io = self._io
        self._saved = None

    # -- patches ---------------------------------------------------------------------------
    def install(self):
        nfc = self.nfc
        self._saved = (nfc.clf.device.connect, nfc.clf.time, nfc.llcp.llc.time)
        nfc.clf.device.connect = self._fake_connect
        ft = FastTime()
        nfc.clf.time = ft
        nfc.llcp.llc.time = ft

    def uninstall(self):
        nfc = self.nfc
        if self._saved:
            nfc.clf.device.connect, nfc.clf.time, nfc.llcp.llc.time = self._saved
            self._saved = None
        ok = True
        if self.prober:
            ok = self.prober.stop()
        return ok

    def _owner_frontend(self, frame):
        """the frontend whose method called device.connect (its lock is the one that must be held)"""
        cls = self.ns["Frontend"]
        n = 0
        while frame is not None and n < 6:
            o = frame.f_locals.get("self")
            if isinstance(o, cls):
                return o
            frame = frame.f_back
            n += 1
        return self.mon.clf

    def _fake_connect(self, path):
        frame = sys._getframe(1)
        site = self.mon.sites.resolve("device.connect", frame)
        clf = self._owner_frontend(frame)
        tok = self.mon.enter(None, "device.connect", site, clf)
        err = None
        try:
            self._on_call(None, "device.connect", site, None)
            self._io("fake:new", "device.connect")
            r = self.env.connect_result
            if self.env.random and self.env.rng.random() < 0.05:
                r = "none"
            if r == "none":
                return None
            if r == "ioerror":
                raise IOError(errno.EACCES, os.strerror(errno.EACCES))
            self.serial += 1
            dev = self.ns["FakeDevice"](self.env, self.serial)
            self._io("fake:new", "device.connect")
            return DeviceProxy(self.mon, dev, self._on_fetch, clf, self._on_call)
        except BaseException as e:
            err = e
            raise
        finally:
            self.mon.exit(None, "device.connect", tok, err)

    # -- yields / probes / faults inside the fake driver -------------------------------------------
    def _io(self, devname, method):
        if self.stress_io:
            r = self.io_rng.random()
            if r < 0.6:
                _time.sleep(0)
            elif r < 0.9:
                _time.sleep(0.00005)
            else:
                _time.sleep(0.0003)
            return
        if self.probe in INSIDE_OPS and _get_ident() == self.main_ident:
            self.prober.gate(self.probe, self.mon.clf_in_driver(self.main_ident))
        else:
            _time.sleep(0)

    def _on_call(self, proxy, name, site, attr):
        """runs inside the monitored driver call, before the fake driver method"""
        env = self.env
        if env.random:
            if env.fault_p and env.rng.random() < env.fault_p:
                self.stress_faults += 1
                kind = env.rng.choice(FAULT_KINDS)
                if name == "close" and attr is not None:
                    attr()                           # the driver shuts down and then reports the failure
                raise make_fault(self.nfc, kind)
            return
        if _get_ident() != self.main_ident:
            return
        if site.get("static"):
            self.seq.append(site["id"])
        f = self.fault
        if f is None or self.fault_fired or site["id"] != f["site"]:
            return
        self.fault_seen += 1
        if self.fault_seen != f["nth"]:
            return
        self.fault_fired = True
        self.fault_clf = self.mon.clf_in_driver(self.main_ident)
        self._io("fake:fault", name)             # the prober is waiting for the lock when the driver call fails
        if name == "close" and attr is not None:
            attr()
        raise make_fault(self.nfc, f["kind"])

    def _on_fetch(self, name, site):
        if _get_ident() != self.main_ident:
            return
        k = self.fetches
        self.fetches += 1
        if self.probe == "close" and k == self.close_at and not self.close_fired:
            self.close_fired = True
            self.fired_at = site["id"]
            self.prober.gate("close")

    def on_acquire(self, lock, me):
        """the directed thread is about to acquire a frontend lock (called before the acquisition proceeds)"""
        k = self.acquires
        self.acquires += 1
        fr = _nfc_frame(0)
        label = self.mon.sites.lock_site(fr) or "lock@%s:unlisted" % _frame_func(fr)
        self.acq_labels.append(label)
        st = self.mon.ops.get(me)
        rec = st[-1] if st else None
        first = rec is not None and rec["acq"] == 0
        if rec is not None:
            rec["acq"] += 1
        if self.probe not in ("pre-close", "pre-reopen") or k != self.close_at or self.close_fired:
            return
        self.close_fired = True
        self.fired_at = label
        if lock.owner == me:
            self.pre_skipped = True              # re-entrant acquisition: the prober could only block
            return
        op = "close" if self.probe == "pre-close" else "reopen"
        self.pre_result = self.prober.gate(op, lock.clf, complete=True)
        if (op == "close" and self.pre_result == "completed" and self.prober.last == ("close", "ok") and first
                and rec["drv"] == 0 and rec["op"] in ENODEV_OPS and rec["clf"] is lock.clf):
            rec["expect"] = label

    # -- frontends -----------------------------------------------------------------------------
    def frontend(self, path=None):
        self.clf = self.ns["Frontend"](self.mon, path)
        return self.clf

    def opened(self):
        clf = self.frontend()
        if clf.open("fake:x") is not True:
            raise RuntimeError("harness: open() of the fake device failed")
        return clf

    # -- results ---------------------------------------------------------------------------------
    def report(self, R, case):
        mon = self.mon
        with mon.mu:
            R.count("driver_calls", mon.calls)
            R.count("driver_calls_with_lock_held", mon.calls_locked)
            if mon.untracked:
                R.count("driver_calls_lock_not_tracked", mon.untracked)
            for m, n in mon.per_method.items():
                R.count("driver_call/" + m, n)
            for s, n in mon.per_site.items():
                R.count("site/" + s, n)
            for s in mon.dynamic_sites:
                R.seen("dynamic_sites", s)
                if s.endswith(":unlisted"):
                    R.count("dynamic_unlisted_site")
            R.max("concurrency_in_driver", mon.max_conc)
            R.count("exit_owner_checks", mon.exit_checks)
            R.count("lock_releases_checked", mon.releases_checked)
            if mon.foreign_releases:
                R.count("lock_foreign_releases", mon.foreign_releases)
                R.count("lock_foreign_releases_owner_in_driver", mon.foreign_releases_owner_in_driver)
            if mon.release_errors:
                R.count("lock_release_errors", mon.release_errors)
            R.count("pre_acquire_enodev_outcomes_judged", mon.enodev_judged)
            leaks = list(mon.lock_leaks)
            viol = list(mon.violations)
            counts = dict(mon.viol_counts)
        for lk in mon.locks:
            R.count("lock_acquisitions", lk.acquisitions)
            R.count("lock_contended_acquisitions", lk.contended)
            R.seen("lock_kind", lk.kind)
        if leaks:
            R.count("lock_leaks", len(leaks))
            R.inconc("frontend lock leaked (a thread re-acquired the lock it still held) in %s: %r" % (
                sorted(set(leaks)), case))
        if self.prober:
            p = self.prober
            R.count("probe_gates", p.gates)
            R.count("probe_prober_blocked_on_lock", p.gate_blocked)
            R.count("probe_prober_not_blocked", p.gate_entered)
            for k, n in p.outcomes.items():
                R.count("prober_outcome/" + k, n)
            for k, n in p.ops.items():
                R.count("prober_op/" + k, n)
            if p.timeouts:
                R.inconc("watchdog: prober handshake timed out %d times in %r" % (p.timeouts, case))
        if mon.untracked:
            R.inconc("frontend lock not found under the attribute `lock` (owner cannot be tracked) for %d driver calls"
                     % mon.untracked)
        for v in viol:
            c = dict(case)
            c["observed"] = {"call": v["call"], "in_progress": v["in_progress"]}
            R.violation(v["sig"], v["what"], c)
        # occurrences beyond the kept witnesses
        kept = {}
        for v in viol:
            kept[v["sig"]] = kept.get(v["sig"], 0) + 1
        for sig, n in counts.items():
            extra = n - kept.get(sig, 0)
            if extra > 0 and sig in R.violations:
                R.violations[sig]["count"] += extra
        return counts


# =============================================================================================================
# directed scenarios (single application thread + prober)
# =============================================================================================================
def _try(excs, fn, *a, **kw):
    try:
        fn(*a, **kw)
    except excs as e:
        return e
    return None


def _after(n):
    c = [0]

    def terminate():
        c[0] += 1
        return c[0] > n
    return terminate


def sc_open_close(h, p):
    clf = h.frontend()
    RT, LT = h.ns["RT"], h.ns["LT"]
    for f in (lambda: clf.sense(RT("106A")), lambda: clf.listen(LT("106A"), 0.01), lambda: clf.exchange(b"\x00", 0.01),
              lambda: clf.max_send_data_size, lambda: clf.max_recv_data_size, lambda: clf.connect(rdwr={})):
        e = _try(IOError, f)
        if e is None or e.errno != errno.ENODEV:
            raise RuntimeError("harness: expected ENODEV on a frontend without device")
    if clf.open("fake:a") is not True:
        raise RuntimeError("harness: open failed")
    str(clf)
    clf.max_send_data_size
    clf.open("fake:b")                      # re-open: closes the first driver, connects a new one
    h.env.connect_result = "none"
    if clf.open("fake:none") is not False:
        raise RuntimeError("harness: open of an absent device should return False")
    h.env.connect_result = "ioerror"
    _try(IOError, clf.open, "fake:denied")
    h.env.connect_result = "ok"
    clf.open("fake:c")
    clf.close()
    clf.close()
    with h.frontend("fake:d") as c2:          # constructor with path, __exit__ closes
        c2.max_recv_data_size
    clf = h.frontend()
    clf.open("fake:e")
    h.env.close_raises = True                 # IOError inside the driver's close() is swallowed by the frontend
    clf.close()
    h.env.close_raises = False
    h.env.connect_result = "none"
    _try(IOError, h.frontend, "fake:absent")
    h.env.connect_result = "ok"
    _try((TypeError, ValueError), clf.open, "")
    _try((TypeError, ValueError), clf.open, 5)


def sc_sense(h, p):
    nfc = h.nfc
    clf = h.opened()
    RT = h.ns["RT"]
    env = h.env
    atr = bytearray(ATR_REQ)

    def after_found(t, cmd):
        if t is not None:
            _try(nfc.clf.CommunicationError, clf.exchange, cmd, 0.01)
            clf.max_send_data_size
            clf.max_recv_data_size

    for present, tg, cmd in [
            ({"tta": "t2t"}, RT("106A"), b"\x30\x00"),
            ({}, RT("106A"), None),
            ({"tta": "t1t"}, RT("106A"), b"\x78\x00\x00\x00\x00\x00\x00"),
            ({"tta": "bad-sens"}, RT("106A"), None),
            ({"tta": "raise"}, RT("106A"), None),
            ({"tta": "t2t"}, RT("106A", sel_req=bytearray(T2T_UID)), b"\x30\x04"),
            ({"ttb": True}, RT("106B"), b"\x1d\x00\x00\x00\x00\x00\x08\x01\x00"),
            ({}, RT("106B"), None),
            ({"ttf": "t3t"}, RT("212F"), b"\x06\x00\x12\xfc\x00\x00"),
            ({"ttf": "t3t"}, RT("424F", sensf_req=bytearray.fromhex("0012fc0000")), b"\x06\x00\xff\xff\x00\x00"),
            ({}, RT("424F"), None),
            ({"dep": True}, RT("106A", atr_req=atr), b"\xf0\x06\xd4\x06\x00\x00\x00"),
            ({"dep": True}, RT("212F", atr_req=atr), b"\x06\xd4\x06\x00\x00\x00"),
            ({"dep": True}, RT("424F", atr_req=atr), b"\x03\xd4\x08"),
            ({}, RT("424F", atr_req=atr), None)]:
        env.present = present
        env.presence_left = None
        env.dep_rounds = 2
        t = clf.sense(tg)
        if bool(t) != bool(cmd):
            raise RuntimeError("harness: sense(%s) with %r gave %s" % (tg, present, t))
        after_found(t, cmd)
    env.present = {}
    clf.sense(RT("106A"), RT("106B"), RT("212F"), iterations=p["iterations"], interval=0.01)
    env.present = {"ttf": "t3t"}
    after_found(clf.sense(RT("106A"), RT("106B"), RT("848A"), RT("106C"), RT("212F"), iterations=2, interval=0.0),
                b"\x06\x00\x12\xfc\x00\x00")
    clf.sense()
    clf.sense(iterations=2, interval=0.0)
    _try(nfc.clf.UnsupportedTargetError, clf.sense, RT("106C"))
    _try(nfc.clf.UnsupportedTargetError, clf.sense, RT("848A"))
    _try(ValueError, clf.sense, RT("106A", sel_req=bytearray(5)))
    _try(ValueError, clf.sense, RT("106A", atr_req=bytearray(10)))
    _try(ValueError, clf.sense, RT("106A", atr_req=bytearray(70)))
    _try(ValueError, clf.sense, "106A")
    clf.close()


def sc_listen(h, p):
    nfc = h.nfc
    clf = h.opened()
    LT = h.ns["LT"]
    env = h.env
    if clf.exchange(b"\x00", 0.01) is not None:       # no target yet: no driver call
        raise RuntimeError("harness: exchange without target should return None")
    sensf = bytearray(b"\x01" + T3T_IDM + T3T_PMM + b"\x12\xfc")
    tta = dict(sens_res=bytearray(b"\x01\x01"), sdd_res=bytearray.fromhex("08010203"), sel_res=bytearray(b"\x00"))
    for listen, tg, rsp in [
            ({"tta": "activate"}, LT("106A", **tta), b"\x00" * 16),
            ({}, LT("106A", **tta), None),
            ({"ttb": "unsupported"}, LT("106B"), None),
            ({"ttb": "activate"}, LT("106B"), b"\x50" + bytes(11)),
            ({}, LT("106B"), None),
            ({"ttf": "activate"}, LT("212F", sensf_res=sensf), b"\x12\x01" + T3T_IDM + T3T_PMM),
            ({}, LT("424F", sensf_res=sensf), None),
            ({"dep": "activate"}, LT("106A", atr_res=bytearray(ATR_RES), sensf_res=sensf, **tta),
             b"\x06\xd5\x07\x00\x00\x00"),
            ({"dep": "short-atr"}, LT("106A", atr_res=bytearray(ATR_RES), sensf_res=sensf, **tta), None),
            ({}, LT("106A", atr_res=bytearray(ATR_RES), sensf_res=sensf, **tta), None)]:
        env.listen = listen
        env.reader_cmds = [b"\x0a\x04" + T3T_IDM, "timeout"]
        env.dep_rounds = 2
        t = None
        e = _try(nfc.clf.UnsupportedTargetError, lambda: None)
        try:
            t = clf.listen(tg, 0.01)
        except nfc.clf.UnsupportedTargetError as err:
            e = err
        if bool(t) != bool(rsp) and e is None:
            raise RuntimeError("harness: listen(%s) with %r gave %s" % (tg, listen, t))
        if t is not None:
            for _ in range(p["exchanges"]):
                _try(nfc.clf.CommunicationError, clf.exchange, rsp, 0.01)
            _try(nfc.clf.CommunicationError, clf.exchange, None, 0.01)
            clf.max_send_data_size
            clf.max_recv_data_size
    _try(ValueError, clf.listen, LT("106C"), 0.01)
    _try(AssertionError, clf.listen, "106A", 0.01)
    clf.close()


def sc_rdwr(h, p):
    """connect(rdwr=...): discovery, activation, on-connect callback phase, LED/buzzer, presence loop, release"""
    clf = h.opened()
    env = h.env
    env.present = dict(p["present"])
    env.presence_left = None
    seen = {}

    def on_connect(tag):
        seen["tag"] = str(tag)
        if p["use_tag_in_callback"]:
            tag.is_present                  # callback phase: application uses the tag (frontend exchange)
            clf.max_send_data_size
        env.presence_left = p["leave_after"]     # from now on the tag answers this many more commands
        return p["on_connect"]

    def on_release(tag):
        seen["released"] = True
        return True

    opts = {"targets": p["targets"], "on-connect": on_connect, "on-release": on_release, "iterations": 1,
            "interval": 0.0, "beep-on-connect": p["beep"]}
    if p.get("reject_discovered"):
        opts["on-discover"] = lambda target: False
    if p.get("startup_removes"):
        opts["on-startup"] = lambda targets: None
    res = clf.connect(rdwr=opts, terminate=_after(p["terminate_after"]))
    seen["result"] = type(res).__name__
    if res not in (None, False, True) and p["use_tag_in_callback"]:
        res.is_present                        # the returned tag is used by the application thread
    clf.close()
    return seen


def sc_llcp(h, p):
    clf = h.opened()
    env = h.env
    env.present = dict(p["present"])
    env.listen = dict(p["listen"])
    env.dep_rounds = p["rounds"]
    opts = {"on-connect": lambda llc: p["on_connect"], "lto": 500}
    if p["role"]:
        opts["role"] = p["role"]
    if "acm" in p:
        opts["acm"] = p["acm"]
    if "brs" in p:
        opts["brs"] = p["brs"]
    try:
        res = clf.connect(llcp=opts, terminate=_after(p["terminate_after"]))
    except SystemExit:                            # llc.run() turns an IOError of the frontend into SystemExit
        res = "SystemExit"
    clf.close()
    return {"result": type(res).__name__}


def sc_card(h, p):
    nfc = h.nfc
    clf = h.opened()
    env = h.env
    env.listen = dict(p["listen"])
    env.reader_cmds = [b"\x0a\x04" + T3T_IDM, "timeout", b"\x10\x06" + T3T_IDM + b"\x01\x0b\x00\x01\x80\x00",
                       b"\x06\x00\xff\xff\x00\x00"][:p["commands"]]

    def on_startup(target):
        if p.get("startup_removes"):
            return None
        target.brty = p["brty"]
        target.sensf_res = bytearray(b"\x01" + T3T_IDM + T3T_PMM + b"\x12\xfc")
        return target

    opts = {"on-startup": on_startup, "on-connect": lambda tag: p["on_connect"], "timeout": 0.01}
    if p.get("reject_discovered"):
        opts["on-discover"] = lambda target: False
    res = clf.connect(card=opts, terminate=_after(p["terminate_after"]))
    if res not in (None, False, True):
        _try(nfc.clf.CommunicationError, res.send_response, b"\x0b\x05" + T3T_IDM + b"\x00", 0.01)
    clf.close()
    return {"result": type(res).__name__}


def sc_combo(h, p):
    """all three option sets in one connect(), nothing in the field, then the frontend is used after close()"""
    clf = h.opened()
    h.env.present = {}
    h.env.listen = {}

    def on_startup(target):
        target.brty = "212F"
        target.sensf_res = bytearray(b"\x01" + T3T_IDM + T3T_PMM + b"\x12\xfc")
        return target
    clf.connect(rdwr={"iterations": 1, "interval": 0.0}, llcp={"role": p["role"]},
                card={"on-startup": on_startup, "timeout": 0.01}, terminate=_after(p["terminate_after"]))
    _try(TypeError, clf.connect, rdwr=[1])

    def interrupt():
        raise KeyboardInterrupt
    # the three documented ways connect() ends with False
    if clf.connect(rdwr={"iterations": 1, "interval": 0.0}, terminate=interrupt) is not False:
        raise RuntimeError("harness: KeyboardInterrupt should end connect() with False")
    h.env.present = {"tta": "ioerror"}
    if clf.connect(rdwr={"targets": ["106A"], "iterations": 1, "interval": 0.0}, terminate=_after(3)) is not False:
        raise RuntimeError("harness: IOError of the driver should end connect() with False")
    h.env.present = {}
    if clf.connect(rdwr={"targets": ["106C"], "iterations": 1, "interval": 0.0}, terminate=_after(3)) is not False:
        raise RuntimeError("harness: unsupported target should end connect() with False")
    if clf.connect() is not None:
        raise RuntimeError("harness: connect() without options should return None")
    clf.close()
    _try(IOError, clf.connect, rdwr={})
    _try(IOError, clf.sense, h.ns["RT"]("106A"))


def scenario_list(rng):
    """(name, function, parameters) - parameters are JSON-able and partly drawn from the PRNG"""
    out = [("open_close", sc_open_close, {}),
           ("sense", sc_sense, {"iterations": rng.choice([2, 3])}),
           ("listen", sc_listen, {"exchanges": rng.choice([1, 2, 3])})]
    t2t = {"tta": "t2t"}
    for beep in (True, False):
        for conn in (True, False):
            out.append(("rdwr", sc_rdwr, {"present": t2t, "targets": ["106A"], "beep": beep, "on_connect": conn,
                                          "leave_after": rng.randrange(0, 4), "use_tag_in_callback": rng.random() < 0.5,
                                          "terminate_after": 30}))
    out += [
        ("rdwr", sc_rdwr, {"present": t2t, "targets": ["106A", "106B", "212F"], "beep": True, "on_connect": True,
                           "leave_after": None, "use_tag_in_callback": True, "terminate_after": rng.randrange(2, 6)}),
        ("rdwr", sc_rdwr, {"present": {"ttf": "t3t"}, "targets": ["106A", "106B", "212F"], "beep": True,
                           "on_connect": True, "leave_after": rng.randrange(0, 3), "use_tag_in_callback": False,
                           "terminate_after": 30}),
        ("rdwr", sc_rdwr, {"present": {"ttb": True}, "targets": ["106B"], "beep": True, "on_connect": True,
                           "leave_after": 0, "use_tag_in_callback": False, "terminate_after": 2}),
        ("rdwr", sc_rdwr, {"present": {}, "targets": ["106A", "106B", "212F", "424F"], "beep": True, "on_connect": True,
                           "leave_after": 0, "use_tag_in_callback": False, "terminate_after": 3}),
        ("rdwr", sc_rdwr, {"present": t2t, "targets": ["106A"], "beep": True, "on_connect": True, "leave_after": 0,
                           "use_tag_in_callback": False, "terminate_after": 2, "reject_discovered": True}),
        ("rdwr", sc_rdwr, {"present": t2t, "targets": ["106A"], "beep": True, "on_connect": True, "leave_after": 0,
                           "use_tag_in_callback": False, "terminate_after": 2, "startup_removes": True}),
    ]

    def K():
        return rng.randrange(1, 6)

    out += [
        ("llcp", sc_llcp, {"role": "target", "present": {}, "listen": {}, "rounds": 0, "on_connect": True,
                           "terminate_after": 2}),
        ("llcp", sc_llcp, {"role": "target", "present": {}, "listen": {"dep": "activate"}, "rounds": K(),
                           "on_connect": True, "terminate_after": 30}),
        ("llcp", sc_llcp, {"role": "target", "present": {}, "listen": {"dep": "activate"}, "rounds": 50,
                           "on_connect": True, "terminate_after": rng.randrange(2, 5)}),
        ("llcp", sc_llcp, {"role": "target", "present": {}, "listen": {"dep": "short-atr"}, "rounds": 1,
                           "on_connect": True, "terminate_after": 2}),
        ("llcp", sc_llcp, {"role": "initiator", "present": {}, "listen": {}, "rounds": 0, "on_connect": True,
                           "terminate_after": 2}),
        ("llcp", sc_llcp, {"role": "initiator", "present": {"dep": True}, "listen": {}, "rounds": K(),
                           "on_connect": True, "terminate_after": 30}),
        ("llcp", sc_llcp, {"role": "initiator", "present": {"dep": True}, "listen": {}, "rounds": 50,
                           "on_connect": True, "terminate_after": rng.randrange(2, 5)}),
        ("llcp", sc_llcp, {"role": "initiator", "present": {"dep": True}, "listen": {}, "rounds": K(),
                           "on_connect": False, "terminate_after": 30}),
        ("llcp", sc_llcp, {"role": "initiator", "acm": False, "present": {"tta": "dep"}, "listen": {}, "rounds": K(),
                           "on_connect": True, "terminate_after": 30}),
        ("llcp", sc_llcp, {"role": "initiator", "acm": False, "brs": 1, "present": {"ttf": "dep"}, "listen": {},
                           "rounds": K(), "on_connect": True, "terminate_after": 30}),
        ("llcp", sc_llcp, {"role": None, "present": {}, "listen": {}, "rounds": 0, "on_connect": True,
                           "terminate_after": 2}),
        ("llcp", sc_llcp, {"role": None, "present": {"dep": True}, "listen": {}, "rounds": K(), "on_connect": True,
                           "terminate_after": 30}),
    ]
    out += [
        ("card", sc_card, {"brty": "212F", "listen": {"ttf": "activate"}, "commands": rng.randrange(0, 5),
                           "on_connect": True, "terminate_after": 30}),
        ("card", sc_card, {"brty": "424F", "listen": {"ttf": "activate"}, "commands": 4, "on_connect": True,
                           "terminate_after": rng.randrange(2, 4)}),
        ("card", sc_card, {"brty": "212F", "listen": {"ttf": "activate"}, "commands": 2, "on_connect": False,
                           "terminate_after": 30}),
        ("card", sc_card, {"brty": "212F", "listen": {"ttf": "activate"}, "commands": 2, "on_connect": True,
                           "terminate_after": 2, "reject_discovered": True}),
        ("card", sc_card, {"brty": "212F", "listen": {}, "commands": 0, "on_connect": True, "terminate_after": 3}),
        ("card", sc_card, {"brty": "106A", "listen": {"tta": "activate"}, "commands": 0, "on_connect": True,
                           "terminate_after": 2}),
        ("card", sc_card, {"brty": "212F", "listen": {}, "commands": 0, "on_connect": True, "terminate_after": 2,
                           "startup_removes": True}),
        ("combo", sc_combo, {"role": rng.choice([None, "target", "initiator"]), "terminate_after": 2}),
    ]
    return out


SCENARIOS = {"open_close": sc_open_close, "sense": sc_sense, "listen": sc_listen, "rdwr": sc_rdwr, "llcp": sc_llcp,
             "card": sc_card, "combo": sc_combo}


def aftermath(h):
    """after an injected driver fault the same frontend is used further by the directed thread (the prober is
    active inside every driver call): error handlers must have left lock and device reference consistent"""
    clf = h.fault_clf if h.fault_clf is not None else h.mon.clf
    RT, LT = h.ns["RT"], h.ns["LT"]
    env = h.env
    env.present = {"tta": "t2t", "ttf": "t3t"}
    env.listen = {"ttf": "activate"}
    env.presence_left = None
    env.connect_result = "ok"
    env.close_raises = False
    env.reader_cmds = [b"\x0a\x04" + T3T_IDM]
    sensf = bytearray(b"\x01" + T3T_IDM + T3T_PMM + b"\x12\xfc")
    before = h.mon.calls
    for f in (lambda: clf.max_recv_data_size,
              lambda: clf.sense(RT("106A")),
              lambda: clf.exchange(b"\x30\x00", 0.01),
              lambda: clf.max_send_data_size,
              lambda: clf.listen(LT("212F", sensf_res=sensf), 0.01),
              lambda: clf.exchange(b"\x12\x01" + T3T_IDM + T3T_PMM, 0.01),
              lambda: clf.close(),
              lambda: clf.sense(RT("106A")),
              lambda: clf.open("fake:after-fault"),
              lambda: clf.sense(RT("212F")),
              lambda: clf.connect(rdwr={"targets": ["106A"], "iterations": 1, "interval": 0.0,
                                        "on-connect": lambda tag: False}, terminate=_after(2)),
              lambda: clf.max_recv_data_size,
              lambda: clf.close()):
        _try(Exception, f)
    return h.mon.calls - before


def run_scenario(R, name, params, probe, close_at=None, seed=0, fault=None, record_case=True):
    """one directed case; returns (number of driver attribute fetches by the directed thread, violation counts,
    harness)"""
    rng = random.Random(seed)
    case = {"kind": "directed", "scenario": name, "params": params, "probe": probe, "close_at": close_at, "seed": seed}
    if fault is not None:
        case["fault"] = fault
    h = Harness(rng, probe=probe, close_at=close_at, fault=fault)
    h.install()
    err = None
    after_calls = 0
    try:
        try:
            SCENARIOS[name](h, params)
        except BaseException as e:           # noqa - SystemExit from nfcpy included
            err = e
        if fault is not None and h.fault_fired and not isinstance(err, HarnessStop):
            try:
                after_calls = aftermath(h)
            except BaseException as e:       # noqa
                err = e
    finally:
        ok = h.uninstall()
    if not ok:
        R.inconc("watchdog: prober thread did not finish in %r" % (case,))
    counts = h.report(R, case)
    pre = probe in ("pre-close", "pre-reopen")
    if err is not None:
        tolerated = ((probe == "close" or pre) and h.close_fired) or (probe in INSIDE_OPS and probe != "size") \
            or (fault is not None and h.fault_fired)
        if isinstance(err, HarnessStop):
            R.count("directed_scenario_stopped_by_harness")
            R.inconc("directed scenario %s %r stopped by the harness: %s" % (name, params, err))
        elif tolerated:
            tag = "fault" if fault is not None else probe
            R.count("after_%s_probe_exception/%s" % (tag, type(err).__name__))
        else:
            from vf.core.rec import exc_sig
            R.count("directed_scenario_exception/" + type(err).__name__)
            R.inconc("directed scenario %s %r stopped with %r (%s)" % (name, params, err, exc_sig(err)))
    if probe == "close":
        R.count("close_probe_runs")
        if h.close_fired:
            R.count("close_probe_fired")
            R.count("close_probe_fired@" + str(h.fired_at).split("@")[-1].split(":")[0])
    elif pre:
        tag = "pre_acquire_close" if probe == "pre-close" else "pre_acquire_reopen"
        R.count(tag + "_runs")
        if h.close_fired and not h.pre_skipped:
            R.count(tag + "_fired")
            R.count(tag + "_fired@" + str(h.fired_at).split("@")[-1].split(":")[0])
            R.count("pre_acquire_result/" + str(h.pre_result))
        elif h.pre_skipped:
            R.count("pre_acquire_skipped_lock_already_held")
    if fault is not None:
        R.count("fault_runs")
        if h.fault_fired:
            R.count("fault_runs_fired")
            R.count("fault_kind/" + fault["kind"])
            R.count("fault_at/" + fault["site"].split("@")[0])
            R.count("fault_aftermath_driver_calls", after_calls)
    if record_case:
        R.case(("directed", name, params, probe, close_at, fault), nontrivial=h.mon.calls > 0)
    return h.fetches, counts, h


# =============================================================================================================
# stress rounds
# =============================================================================================================
class Injector(object):
    """sys.monitoring LINE events inside nfc/clf/__init__.py: yield injection + schedule signature"""
    installed = None

    def __init__(self):
        self.file = _ns()["clf_file"]
        self.rng = random.Random(0)
        self.p = 0.0
        self.on = False
        self.last = None
        self.switches = 0
        self.sig = 0
        self.events = 0
        self.yields = 0

    @classmethod
    def get(cls):
        if cls.installed is None:
            inj = cls()
            m = sys.monitoring
            try:
                m.use_tool_id(TOOL_ID, "vf-c15")
            except ValueError:
                pass
            m.register_callback(TOOL_ID, m.events.LINE, inj.on_line)
            cls.installed = inj
        return cls.installed

    def on_line(self, code, line):
        if code.co_filename != self.file:
            return sys.monitoring.DISABLE
        if not self.on:
            return None
        self.events += 1
        t = _get_ident()
        if t != self.last:
            self.last = t
            self.switches += 1
            self.sig = zlib.crc32(("%s|%s|%d" % (threading.current_thread().name, code.co_name, line)).encode(),
                                  self.sig)
        r = self.rng.random()
        if r < self.p:
            self.yields += 1
            if r < self.p * 0.85:
                _time.sleep(0)
            else:
                _time.sleep(0.0001)
        return None

    def start(self, seed, p):
        self.rng = random.Random(seed)
        self.p = p
        self.last = None
        self.switches = self.sig = self.events = self.yields = 0
        self.on = True
        sys.monitoring.restart_events()
        sys.monitoring.set_events(TOOL_ID, sys.monitoring.events.LINE)

    def stop(self):
        self.on = False
        sys.monitoring.set_events(TOOL_ID, 0)


STRESS_OPS = [("sense1", 14), ("senseN", 8), ("listen", 10), ("exchange", 22), ("size_send", 8), ("size_recv", 8),
              ("str", 2), ("close", 3), ("open", 7), ("rdwr", 9), ("card", 4), ("llcp", 3), ("ctx", 2)]


def stress_round(R, cfg, record=True):
    """cfg: seed, threads, calls (per thread), p_yield, switch_us.  One frontend shared by all threads."""
    ns = _ns()
    nfc, RT, LT = ns["nfc"], ns["RT"], ns["LT"]
    rng = random.Random(cfg["seed"])
    h = Harness(rng)
    h.stress_io = True
    h.install()
    inj = Injector.get()
    clf = h.opened()
    h.env.random = True
    h.env.fault_p = cfg.get("p_fault", 0.0)
    from vf.core.rec import exc_sig
    outcomes = {}
    escapes = set()
    omu = threading.Lock()
    done = []
    sensf = bytearray(b"\x01" + T3T_IDM + T3T_PMM + b"\x12\xfc")
    tta = dict(sens_res=bytearray(b"\x01\x01"), sdd_res=bytearray.fromhex("08010203"), sel_res=bytearray(b"\x00"))
    names = [o for o, w in STRESS_OPS]
    weights = [w for o, w in STRESS_OPS]

    def one(op, lr):
        if op == "sense1":
            b = lr.choice(["106A", "106B", "212F", "424F"])
            kw = {"atr_req": bytearray(ATR_REQ)} if (b[-1] in "AF" and lr.random() < 0.3) else {}
            clf.sense(RT(b, **kw))
        elif op == "senseN":
            clf.sense(*[RT(b) for b in lr.sample(["106A", "106B", "212F", "424F"], lr.randrange(2, 4))],
                      iterations=lr.choice([1, 2]), interval=0.0)
        elif op == "listen":
            k = lr.randrange(4)
            tg = [LT("106A", **tta), LT("106B"), LT(lr.choice(["212F", "424F"]), sensf_res=sensf),
                  LT("106A", atr_res=bytearray(ATR_RES), sensf_res=sensf, **tta)][k]
            clf.listen(tg, 0.001)
        elif op == "exchange":
            clf.exchange(lr.choice([b"\x30\x00", b"\x30\x04", b"\x06\x00\xff\xff\x00\x00", b"\x00\x01", None]), 0.001)
        elif op == "size_send":
            clf.max_send_data_size
        elif op == "size_recv":
            clf.max_recv_data_size
        elif op == "str":
            str(clf)
        elif op == "close":
            clf.close()
        elif op == "open":
            clf.open("fake:%d" % lr.randrange(100))
        elif op == "ctx":
            with clf:
                clf.max_send_data_size
            clf.open("fake:ctx")
        elif op == "rdwr":
            conn, beep, use = lr.random() < 0.7, lr.random() < 0.7, lr.random() < 0.5

            def on_connect(tag):
                if use:
                    tag.is_present
                return conn
            clf.connect(rdwr={"targets": lr.choice([["106A"], ["106A", "212F"], ["106A", "106B", "212F"]]),
                              "on-connect": on_connect, "iterations": 1, "interval": 0.0, "beep-on-connect": beep},
                        terminate=_after(lr.randrange(1, 5)))
        elif op == "card":
            def on_startup(target):
                target.brty = "212F"
                target.sensf_res = sensf
                return target
            clf.connect(card={"on-startup": on_startup, "timeout": 0.001, "on-connect": lambda tag: lr.random() < 0.8},
                        terminate=_after(lr.randrange(1, 4)))
        elif op == "llcp":
            clf.connect(llcp={"role": lr.choice(["target", "initiator"]), "lto": 500},
                        terminate=_after(lr.randrange(1, 4)))

    def worker(i):
        lr = random.Random(cfg["seed"] * 131 + i)
        n = 0
        try:
            for n in range(cfg["calls"]):
                op = lr.choices(names, weights)[0]
                try:
                    one(op, lr)
                    out = "ok"
                except IOError as e:
                    out = "IOError(%s)" % errno.errorcode.get(e.errno, e.errno)
                except SystemExit:
                    out = "SystemExit"
                except nfc.clf.Error as e:
                    out = type(e).__name__
                except HarnessStop:
                    out = "HarnessStop"
                except Exception as e:          # an outcome of the race, not a verdict of this property
                    out = type(e).__name__
                    if isinstance(e, RuntimeError) and "lock" in str(e) and h.mon.release_errors:
                        out = "RuntimeError(lock)"      # judged by the monitor (lock-protocol/...), not filed here
                    else:
                        with omu:
                            escapes.add(exc_sig(e))
                with omu:
                    k = op + ":" + out
                    outcomes[k] = outcomes.get(k, 0) + 1
        finally:
            with omu:
                done.append(i)

    old_si = sys.getswitchinterval()
    sys.setswitchinterval(cfg["switch_us"] * 1e-6)
    threads = [threading.Thread(target=worker, args=(i,), name="T%d" % i, daemon=True) for i in range(cfg["threads"])]
    inj.start(cfg["seed"], cfg["p_yield"])
    t0 = _time.monotonic()
    try:
        for t in threads:
            t.start()
        deadline = t0 + cfg.get("watchdog", 90)
        for t in threads:
            t.join(max(0.0, deadline - _time.monotonic()))
    finally:
        inj.stop()
        sys.setswitchinterval(old_si)
    hung = [t.name for t in threads if t.is_alive()]
    case = {"kind": "stress", "cfg": cfg}
    if hung:
        import faulthandler
        faulthandler.dump_traceback(file=sys.stderr)
        R.inconc("watchdog: stress round %r: threads %s still running after %ds" % (cfg, hung, cfg.get("watchdog", 90)))
    else:
        _try(Exception, clf.close)
    h.uninstall()
    counts = h.report(R, case)
    total = sum(outcomes.values())
    R.count("stress_rounds")
    R.count("stress_calls", total)
    R.count("thread_switches", inj.switches)
    R.count("line_events", inj.events)
    R.count("yields_injected", inj.yields)
    R.count("stress_faults_injected", h.stress_faults)
    for k, n in outcomes.items():
        R.count("stress_outcome/" + k, n)
    for e in escapes:
        R.seen("stress_other_exceptions_not_judged", e)
    sig = "%08x" % inj.sig
    R.seen("schedule_signatures", sig)
    if record:
        R.case(("stress", sig, inj.switches), nontrivial=h.mon.calls > 0 and inj.switches > 1)
    return not hung, counts


# =============================================================================================================
# shard driver
# =============================================================================================================
def check_site_coverage(R, observed_locked, observed_any, lock_reached):
    sites = static_sites()
    ids = [s["id"] for s in sites.items]
    R.max("sites_total", len(ids))
    R.max("files_scanned", sites.scanned)
    for i in ids:
        R.seen("sites_static", i)
    missing = [i for i in ids if i not in observed_locked]
    R.max("sites_covered", len(ids) - len(missing))
    if not ids:
        R.inconc("no self.device call sites found in %s (adapter broken?)" % sites.path)
    if sites.unparsed:
        R.inconc("static scan could not read/parse: %s" % ", ".join(sites.unparsed[:5]))
    never = [i for i in missing if i not in observed_any]
    unlocked = [i for i in missing if i in observed_any]
    if never:
        R.inconc("driver call sites never executed by the directed drive: %s" % ", ".join(never))
    if unlocked:
        R.inconc("driver call sites never observed with the frontend lock held: %s" % ", ".join(unlocked))
    lids = [s["id"] for s in sites.lock_sites]
    R.max("lock_sites_total", len(lids))
    lmiss = [i for i in lids if i not in lock_reached]
    R.max("lock_sites_reached", len(lids) - len(lmiss))
    for i in sorted(lock_reached):
        R.seen("lock_sites_acquired", i)
    if lmiss:
        R.inconc("lock acquisition sites of the frontend never reached by the directed drive (not probed): %s"
                 % ", ".join(lmiss))
    return missing


def fault_candidates(seq, srng, tier, q0):
    """(site, nth, kind) for one scenario from the static sites of its driver calls (in order of first use)"""
    order, count = [], {}
    for sid in seq:
        if sid not in count:
            order.append(sid)
            count[sid] = 0
        count[sid] += 1
    out = []
    q = q0
    for sid in order:
        c = count[sid]
        if tier == "quick":
            out.append({"site": sid, "nth": 1, "kind": FAULT_KINDS[q % 4]})
            q += 1
            if c > 1:
                out.append({"site": sid, "nth": srng.randrange(2, c + 1), "kind": FAULT_KINDS[q % 4]})
                q += 1
        else:
            nths = list(range(1, min(c, 6) + 1))
            if c > 6:
                nths += sorted(srng.sample(range(7, c + 1), min(3, c - 6)))
            for n in nths:
                for kind in FAULT_KINDS:
                    out.append({"site": sid, "nth": n, "kind": kind})
    return out, q


ALL_PASSES = ("ops", "fetch-close", "pre-acquire", "faults")


def directed_pass(R, seed, shard, nshards, tier="quick", passes=ALL_PASSES):
    """every shard runs the plain pass (directed thread alone) over all scenarios: coverage criterion (every static
    site observed with the lock held) and probe positions; all prober passes are partitioned over the shards:
    scenario list and positions come from shard-independent generators, so every (scenario, probe, position) is run
    by exactly one shard"""
    scen = scenario_list(random.Random(seed * 7919 + 5))
    srng = random.Random(seed * 104729 + 11)
    locked, anyobs, lock_reached = set(), set(), set()
    info = []
    for idx, (name, fn, params) in enumerate(scen):
        n, counts, h = run_scenario(R, name, params, None, seed=idx)
        locked |= h.mon.sites_locked
        anyobs |= h.mon.sites_seen
        lock_reached |= set(h.acq_labels)
        info.append({"fetches": n, "acq": len(h.acq_labels), "seq": list(h.seq)})
        if idx < 40 and shard == 0 and name in ("rdwr", "card"):
            R.sample({"scenario": name, "params": params, "first_driver_calls": h.mon.trace})
    check_site_coverage(R, locked, anyobs, lock_reached)
    R.count("directed_scenarios", len(scen))
    state = {"j": 0}
    tally = {}

    def mine():
        state["j"] += 1             # a function of the position number only: exact partition over the shards
        return zlib.crc32(b"%d" % state["j"]) % nshards == shard % nshards

    def fired(passname, ok):
        t = tally.setdefault(passname, [0, 0])
        t[0] += 1
        if not ok:
            t[1] += 1

    # prober operation (size query, listen, open, exchange, sense) inside every driver call
    for idx, (name, fn, params) in enumerate(scen):
        for op in INSIDE_OPS:
            if mine() and "ops" in passes:
                run_scenario(R, name, params, op, seed=idx)
    # close() prober between attribute fetch and call, at every fetch position
    for idx, (name, fn, params) in enumerate(scen):
        for k in range(info[idx]["fetches"]):
            if mine() and "fetch-close" in passes:
                n, counts, h = run_scenario(R, name, params, "close", close_at=k, seed=idx)
                fired("fetch-close", h.close_fired)
    # close() / close()+open() completed right before the k-th lock acquisition
    for idx, (name, fn, params) in enumerate(scen):
        for k in range(info[idx]["acq"]):
            for probe in ("pre-close", "pre-reopen"):
                if mine() and "pre-acquire" in passes:
                    n, counts, h = run_scenario(R, name, params, probe, close_at=k, seed=idx)
                    fired(probe, h.close_fired)
    # driver faults
    q = 0
    for idx, (name, fn, params) in enumerate(scen):
        cands, q = fault_candidates(info[idx]["seq"], srng, tier, q)
        for f in cands:
            if mine() and "faults" in passes:
                n, counts, h = run_scenario(R, name, params, "size", seed=idx, fault=f)
                fired("faults", h.fault_fired)
    for passname, (n, miss) in sorted(tally.items()):
        if miss:
            R.count("probe_position_not_reached/" + passname, miss)
        if miss > max(2, n // 20):
            R.inconc("%s pass: %d of %d probe positions of this shard were never reached (directed drive not "
                     "reproducible, or monitor dead)" % (passname, miss, n))


def run(desc, R, rng):
    import faulthandler
    faulthandler.dump_traceback_later(desc.get("timeout", 240) - 10, exit=False)
    try:
        shard, nshards = desc["shard"], desc.get("nshards", 8)
        tier = desc.get("tier", "quick")
        for rep in range(1 if tier == "quick" else 3):     # thorough: three draws of the scenario parameters
            directed_pass(R, int(desc.get("seed", 0)) + 7000 * rep, shard, nshards, tier)
        lo, hi = desc["threads"]
        clo, chi = desc["calls"]
        for r in range(desc["rounds"]):
            cfg = {"seed": rng.getrandbits(40), "threads": rng.randrange(lo, hi + 1), "calls": rng.randrange(clo, chi + 1),
                   "p_yield": rng.choice([0.0, 0.01, 0.03, 0.1, 0.3]), "switch_us": rng.choice([5, 20, 100, 1000, 5000]),
                   "p_fault": rng.choice([0.0, 0.01, 0.03])}
            ok, counts = stress_round(R, cfg)
            if not ok:
                break
    finally:
        faulthandler.cancel_dump_traceback_later()


def replay(case, R):
    import faulthandler
    faulthandler.dump_traceback_later(200, exit=True)
    try:
        if case.get("kind") == "directed":
            run_scenario(R, case["scenario"], case["params"], case.get("probe"), close_at=case.get("close_at"),
                         seed=case.get("seed", 0), fault=case.get("fault"))
        else:
            # a schedule cannot be forced; the unlocked call behind an overlap is reproduced deterministically by the
            # directed drive with its probers, then the recorded round is repeated a few times (best effort)
            directed_pass(R, 0, 0, 1, "quick", passes=("ops", "fetch-close", "pre-acquire"))
            cfg = dict(case["cfg"])
            for i in range(3):
                stress_round(R, cfg)
    finally:
        faulthandler.cancel_dump_traceback_later()
