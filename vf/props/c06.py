"""C06 - SNEP and connection handover carry NDEF messages intact through fragmentation.

Everything observed is real nfcpy code.
  part (a)  two real LogicalLinkController run loops joined at PDU level (vf.sim.llcpair.ThreadedPair), real
            nfc.snep.SnepServer / SnepClient and nfc.handover.HandoverServer / HandoverClient threads on both ends
  part (b)  the complete stack: two real ContactlessFrontend.connect(llcp=...) calls over the real nfc.clf.udp driver
            on the in-memory vf.sim.fakenet (activation, ATR/PSL, NFC-DEP chaining with LRi/LRt 0..3, LLCP, SNEP);
            planned only when vf.sim.fakenet is importable (class StackLink, same scenarios and oracles as (a))

Observation points (boundaries only)
  server application   subclasses override the public hooks: SnepServer.process_snep_request (raw request octets),
                       process_put_request / process_get_request (records), HandoverServer
                       .process_handover_request_message (records = the application boundary; the buffer the server
                       decoded them from is kept for the report when the _process_request_data hook exists)
  client application   return value / exception of put_octets, get_octets, send_octets, recv_octets
  wire                 every LLCP frame (pipe observer / the initiator's mac.exchange in part (b)), decoded by the
                       independent vf.ref.llcp_ref; radio frames of the fake network are counted in part (b)

Oracle clauses (signature prefix)
  <proto>/<kind>/lost-after-success      the client call reported success, the link is idle, the peer application
                                         never got the message.  A call that returned success only because no response
                                         arrived within its time-out (put_octets does that) is judged on the same two
                                         facts - the call completed with success, the quiescent link (below) never
                                         delivered - and the wire tells the mechanism apart:
                                         .../request-incomplete-on-wire   fewer octets than the request crossed the link
                                         .../request-complete-on-wire     the whole request crossed, nobody delivered it
                                         .../no-response                  concurrent batch, frames not attributable
  <proto>/<kind>/duplicate-delivery      the peer application got the message more than once
  <proto>/<kind>/stale-redelivery        instead of the message the peer application got an earlier message again
  <proto>/<kind>/delivered-altered/<how> the peer application got other octets (truncated, appended, content, length)
  snep/<kind>/app-octets-differ          process_put/get_request records do not encode to the octets given
  snep/<kind>/refused-within-limit/<outcome>   a message not larger than the acceptable length was refused
                                         (get: .../returned-None/request-complete-on-wire | no-response when the call
                                         gave up, the whole request had crossed the quiescent link and the server
                                         application was never called with it)
  snep/put|get/oversize/<delivered|delivered-partial|reported-success|outcome-..|no-error-response-on-wire>
  snep/get/response-differs/<how>, snep/get/excess/<delivered|outcome-..|no-error-response-on-wire>
  snep/get/response-incomplete-on-wire, handover/response/incomplete-on-wire   (time-out + idle link + wire content;
                                         only when the wire was already idle - SYMM only, every server thread waiting
                                         for input - at the moment the client call gave up: a transfer that was still
                                         moving then was merely slow and is cut by the close() that follows -> INCONCLUSIVE;
                                         the same guard holds for .../request-incomplete-on-wire after a time-out)
  handover/response/<differs/..|missing>, handover/request/send-failed[/frame-rejected]   (send_octets returned False on a
                                         live connection; /frame-rejected when the server's side answered with an FRMR PDU)
  <proto>/unexpected-delivery/<how>      an application call nobody asked for
  escape/<proto>/<op>/<exception@where>  a client call raised something else than the documented SnepError
  stuck/<proto>/<op>/server-thread-died/<exception@where>   only with a recorded exception in a server thread
  <proto>/<kind>/never-delivered/client-call-deadlocked   the client call waits without time-out, the link is quiescent,
                                         the message (within every limit) never reached the peer application
  .../connection-never-answered          suffix of the request-complete-on-wire, client-call-deadlocked and send-failed
                                         signatures when the message was the first of its connection and the server side
                                         never sent an I/RR/RNR PDU on it (lost at connection set-up; findings-proposed F2:
                                         the first I PDU is dropped by the listening socket - a second fragment that arrives
                                         after the accepted socket was inserted is then out of sequence and frame-rejected)

  snep/<kind>/request-not-given-to-application   the complete request reached process_snep_request and was answered, but
                                         process_put_request / process_get_request (the application boundary) was never
                                         called with it (a raw-layer match alone no longer counts as delivered)
  snep/get/overlong-response/<delivered|delivered-partial>, snep/get/short-response/delivered-partial
                                         client as receiver: a NON-COMPLIANT server (BadSnepServer, harness code on a third
                                         service name, its transmission done by the real SnepServer._serve loop) answers a Get
                                         with a length field above the acceptable length the client announced, or with a
                                         length field larger than the octets it then sends (the last 1..7 octets, a whole
                                         fragment or everything missing; afterwards it stays silent).  The client must return
                                         None or raise SnepError - octets are "delivered in part".  Whether the client tells
                                         the server (Reject request) is not demanded.

Error response for over-length requests: the statement says "refused with the protocol's error response".  SNEP 1.0 (from
memory, the text is not available offline) defines Reject (FFh) for "unable to receive the remaining fragments" - i.e. as
the counterpart of Continue after the first fragment of a FRAGMENTED request - and Excess Data (C1h) for a Get whose answer
exceeds the acceptable length; for an over-length request that fits one fragment no code is singled out.  So the oracle
demands Excess Data exactly where the specification is unambiguous (answer longer than the client's acceptable length) and
any error-class response code (>= C0h) for over-length requests; nfcpy answers FFh in both request cases.

Lagging receiver (LagSocket): every socket the servers under test serve and, where asked, the client's socket sit behind a
pass-through proxy (public socket API only).  In the lagging-receiver class (gen_lag; RW 2..15, MIU 128, one message of
17+RW..20+RW fragments per connection, four directions: put request / handover request towards a lagging server, get
response / handover select towards a lagging client) the receiving application's recv() is held until the wire has gone idle
(two consecutive SYMM frames: the sender has nothing it may send), then as many recv() calls pass as I PDUs were outstanding,
then it is held again: the sender runs into a full window again and again, also while N(S) wraps.  What was outstanding at
each release is read from the wire (I PDUs towards that socket minus recv() calls that returned) and counted
(window_exhausted_before_recv = released with >= RW outstanding).  Oracles unchanged (octet-identical, exactly once); a
hold ends after LAG_CAP real seconds at the latest and decides nothing.

Records APIs: RECORDS_SHARE of the operations go through put_records / get_records / send_records / recv_records with the
record list the API's own decoder makes of the message (only where that round-trips, checked per message); the result is
compared as enc(records).  Size 0 is forced into every link (put request, get request, get response; half of them through
the records APIs = the empty record list).  Two API conventions are accepted and counted, not judged: get_records([])
stands for "no request message" and arrives as one empty record (D0 00 00; 0 octets would be accepted as well), and
get_records() returns None for a message shorter than 3 octets - then the octets-level call underneath (same client
object, observed) tells the empty message from a failed call.  recv_records() raising TypeError from its log line after
recv_octets() returned None (time-out) is handled as "nothing received".

Complete stack: besides links with random configuration every shard runs links aimed at the NFC-DEP frame boundaries
(gen_depaim): MIUs large enough that one LLCP I PDU needs a chain of 1..6(7) NFC-DEP frames, I PDU lengths k*F+d (F = payload
of one NFC-DEP frame for LRi/LRt 0..3, d = -2..+2), one message per direction with k >= 5 so that the packet number passes
3 -> 0 inside a chain whatever it started with.  Chains and PNI wraps are counted from the radio frames per direction
(radio_dep_chain_pni_wrap_i2t / _t2i, required), verified transfers per protocol (fullstack_*_checked, required).

Record boundaries: handover has no length framing - the receiver appends fragments until what it has collected decodes as a
complete NDEF message - so the generator aims RECORD boundaries (not only message sizes) at the sender's fragment
boundaries (k*MIU-2..+2, k = 1..3, 2-5 records, both directions; ho_message_rb / ndef_exact_rb).  The oracles are the
unchanged octet-equality / exactly-once clauses at the application boundary; what was hit is read back from the verified
message (record_offsets) and counted as record_boundary_at_fragment_boundary/{request,select,snep_put,snep_get_response}.

Quiescence ("never" instead of "not yet", no clock involved): the link is alive, the wire carried only SYMM for
SETTLE_SYMM consecutive frames twice in a row with no other frame in between, and at both looks at least one thread
is inside nfc/snep/server.py or nfc/handover/server.py and every such thread was parked in an untimed
threading.Condition.wait called from nfc code that nobody has notified yet (vf.core.watch.classify: a waiter whose lock
was already released is about to run), none of them made progress between the looks (vf.core.watch.thread_key) and the
heartbeat thread of this process (vf.core.watch.Heartbeat) was scheduled in between: a parked serving thread can only
be woken by new input, so a request that has crossed completely and is not in the book by then will never be
delivered.  The thread look can only withhold a verdict (-> INCONCLUSIVE), never make one; no server thread found at
all withholds it as well.  Application calls nobody asked for (late duplicates) are looked for after every batch in
which no client call is stuck; a late delivery of a message whose operation ended INCONCLUSIVE is not one of them.

Blocked calls: a client thread that is still inside a call although the wire has been idle for longer than any
time-out is INCONCLUSIVE (stack + socket states in the reason) unless (1) the same connection already has a violation
(consequence, counted), (2) the peer application was meanwhile called with other octets (that is the violation),
(3) it is the final close() after every transfer of the connection was judged (not a statement about delivery; counted
as close_blocked_after_all_transfers_were_judged), or (4) the blocking is a deadlock visible as a structure: the
client thread is parked in Condition.wait(timeout=None), the link is quiescent (above) and the message of the call,
which is within every limit, is not in the book - nothing is left that could deliver it (never-delivered/
client-call-deadlocked; the harness watchdog only decides *when* to look, the verdict needs all of these facts; a
blocked call whose message was delivered stays INCONCLUSIVE).  After a violation or a blocked call the link is replaced, nothing
observed later on it could be attributed.  VF_C06_DEBUG=<dir> dumps the scenario of an unexplained blocked call.
"""
import importlib.util
import random
import struct
import sys
import threading
import time
import traceback

ID = "C06"
LEVEL = "exploration"
RULE = ("a case is one transfer (SNEP put, SNEP get, handover request+select) executed over a live link between two "
        "real LLCs; generated per link: link MIU of both ends (128..2175), aggregation on/off per end, server socket "
        "MIU/RW, client socket MIU/RW (tuned client subclass, HandoverClient.connect arguments), client on the "
        "initiator or on the target end, explicit or implicit SNEP connection, 1-5 transfers per connection, 1-2 "
        "concurrent connections per batch, several batches per link; message sizes 0, 3, small, random up to 6 "
        "connection MIUs and every offset -7..+7 around k*MIU measured both on the NDEF octets and on the SNEP "
        "message (header included); about 40 % of the SNEP connections are 'chains': explicit connect(), 2-5 "
        "operations whose whole SNEP message (get response, get request, put request; header included) is "
        "k*MIU-7..k*MIU+7 with -1/0/+1 weighted, every one followed by at least one more operation on the same "
        "connection, all within the acceptable lengths; acceptable-length limits (server max_acceptable_length, client "
        "max_ndef_msg_recv_size) placed at size-7..size+7; every shard additionally runs the sequence-number wrap "
        "class: per receive window 1, 2, 15 one link with all receiving sockets at MIU 128 carrying single messages "
        "of 17+RW..40 fragments in each direction (put request, get response, handover request, handover select) "
        "and SNEP and handover connections with 20-24 (RW 15: 34-36) operations; about 45 % of the handover dialogues "
        "(request, select or both) and 5 % of all connections (SNEP put requests, get responses, some get requests) carry "
        "multi-record messages of 2-5 records whose RECORD boundaries are placed at k*F-2..k*F+2 (k = 1..3, the exact "
        "coincidence weighted 3 of 7; 1-3 such boundaries per message) where F is the fragment size the sender slices "
        "at = the send MIU of its data link connection (handover client: SO_SNDMIU = min(server socket MIU, server link "
        "MIU); handover server: min(client recv_miu, client link MIU); SNEP: the same behind the 6/10 octet header): an "
        "Hr/Hs record with alternative carrier records referring to carrier / auxiliary records (media-type, external-type "
        "and Hc records) of controlled sizes; 2-record messages size the Hr/Hs record itself through the length of the "
        "carrier data reference.  Distinct = (protocol, kind, size(s), connection MIUs, "
        "role, aggregation flags, window sizes, limit relation); non-trivial = both ends of the transfer reached the "
        "comparison of the octets at the receiving application.  Every shard additionally runs the lagging-receiver class "
        "(one link, receive window 2..15 rotating over shards and seeds, MIU 128: single messages of 17+RW..20+RW fragments "
        "towards a receiver whose recv() is held until the sender's window is exhausted and the wire idle; put request, get "
        "response, handover request, handover select); 5 % of the connections are one Get towards a non-compliant server "
        "(length field above the client's acceptable length, or above the octets sent); 20 % of the operations use the "
        "records APIs; every link carries a put request, a get request and a get response of 0 octets.  Part (b) repeats the "
        "scenarios (one connection at a time) over the complete stack with NFC-DEP LRi/LRt 0..3, bit rate selection 0..2 and "
        "active/passive mode, plus links whose I PDU lengths are aimed at k*F-2..k*F+2 (F = NFC-DEP frame payload of the "
        "direction, k = 1..6) with MIUs of 1600..2175")
ASSUMPTIONS = [
    "vf.sim.llcpair.ThreadedPair delivers every LLCP frame unchanged and in order (it replaces NFC-DEP and the radio)",
    "ndeflib encodes the generated records canonically: encode(decode(octets)) == octets is verified for every generated message, so records handed to/returned by the application hooks stand for exactly those octets",
    "a 'lost' verdict needs the client call to have completed with success, the link to be alive and quiescent (wire idle = SYMM only, and for calls that ended without a response additionally every SNEP/handover server thread parked waiting for input) and the message absent from the server application's record; whether the client's internal time-out elapsed does not enter the verdict",
    "a client call that gave up (get -> None) by its time-out is a violation only when the quiescent link shows that the request crossed completely and was never delivered, or that the response never crossed completely; a response that did cross completely after the client gave up stays inconclusive",
    "a SNEP Get request whose NDEF message fits the server's max_acceptable_length but whose information field (4 octet acceptable-length + NDEF) does not is outside the verdict (nfcpy refuses it; the property statement does not decide it)",
    "RW=0 and socket MIU < 128 are outside the domain",
    "records APIs: get_records([]) arriving as one empty record (D0 00 00) or as 0 octets, and get_records() returning None for a response of less than 3 octets while the octets-level call underneath returned exactly the (empty) message, are conventions of the API and accepted (counted); recv_records() raising TypeError in its log line after recv_octets() returned None is treated as 'nothing received'",
    "client as receiver: the non-compliant SNEP server is harness code (BadSnepServer); the client satisfies 'never delivered in part' by returning None or raising SnepError; a Reject request towards the server is not demanded",
    "over-length requests: any SNEP error-class response code (>= C0h) is 'the protocol's error response' (SNEP 1.0 singles out Reject only for fragmented requests); Excess Data (C1h) is demanded for a Get answer above the client's acceptable length",
    "lagging receiver: a hold of recv() ends when the wire is idle or after LAG_CAP seconds; how many holds saw a full window is evidence (required > 0), not a verdict",
]
REQUIRED = ["snep_put_checked", "snep_get_checked", "ho_request_checked", "ho_response_checked",
            "snep_put_oversize_refused", "snep_get_excess_refused", "fragmented_requests", "fragmented_responses",
            "wire_I_pdus", "wire_snep_continue", "wire_snep_reject", "followed_boundary_ops",
            "followed_get_response_exactly_k_miu", "seqwrap_transfers", "seqwrap_long_connections",
            "record_boundary_at_fragment_boundary/request", "record_boundary_at_fragment_boundary/select",
            "record_boundary_at_fragment_boundary/snep_put", "record_boundary_at_fragment_boundary/snep_get_response",
            # lagging receiver: recv() calls released with a full receive window on the wire / transfers verified that way
            "window_exhausted_before_recv", "lagging_transfers_checked",
            # client as receiver of a non-compliant server's response
            "client_overlong_response_refused", "client_short_response_refused",
            # records APIs, empty record list, the empty NDEF message
            "api_records_checked/snep_put", "api_records_checked/snep_get", "api_records_checked/ho_response",
            "records_api_empty_list_checked", "zero_size_checked"]

CALL_TIMEOUT = 3.0          # timeout argument given to put/get/recv_octets (nfcpy waits on it with real time)
SETTLE_SYMM = 4             # consecutive SYMM frames that count as "wire idle"
QUIESCE_ROUNDS = 12         # looks at wire + server threads before "not quiescent" (-> inconclusive)
CHAIN_SHARE = 0.4           # share of SNEP connections generated as boundary chains
RB_HO_SHARE = 0.45          # share of handover dialogues with record boundaries aimed at the fragment boundaries
RB_SNEP_SHARE = 0.05        # share of all connections: SNEP connections with such multi-record messages
BAD_SHARE = 0.05            # share of all connections: one Get towards the non-compliant server

LAG_SYMM = 2                # lagging receiver: consecutive SYMM frames (one per direction) = "the wire has gone idle"
LAG_CAP = 2.0               # ... real seconds after which a held recv() is released anyway (workload control, no verdict)
LAG_RWS = (2, 3, 4, 5, 6, 7, 8, 9, 10, 11, 12, 13, 14, 15)
BAD_TIMEOUT = 0.3           # client time-out for responses of the non-compliant server (a short response ends by it)
RECORDS_SHARE = 0.2         # share of operations that go through the records APIs

SVC_NAMES = ["urn:nfc:sn:snep", "urn:nfc:xsn:vf.c06:lim", "urn:nfc:xsn:vf.c06:bad"]
SNEP_DEFAULT_MAX = 0x100000
EDGE = list(range(-7, 8))


# ---------------------------------------------------------------------------------------------------------------
# plan
def fullstack_available():
    """part (b) needs vf.sim.fakenet (in-memory network under the real nfc.clf.udp driver)"""
    try:
        if importlib.util.find_spec("vf.sim.fakenet") is None:
            return False
        from vf.sim import fakenet
        return all(hasattr(fakenet, n) for n in ("FakeNet", "run_llcp_pair"))
    except Exception:
        return False


def plan(tier, seed):
    n = 16
    if tier == "quick":
        descs = [{"kind": "pipe", "links": 6, "batches": 9, "maxk": 3, "slow_limit": 8, "timeout": 240} for _ in range(n)]
    else:
        descs = [{"kind": "pipe", "links": 64, "batches": 10, "maxk": 6, "slow_limit": 100, "timeout": 3000} for _ in range(n)]
    for d in descs:                # sequence-number wrap class (gen_seqwrap): links per shard = 3 receive windows x rounds
        d["seqwrap_rounds"] = 1 if tier == "quick" else 4
        # lagging-receiver class (gen_lag): links per shard, connections (of the four directions) per link
        d["lag_rounds"], d["lag_kinds"] = (1, 2) if tier == "quick" else (6, 4)
    if fullstack_available():      # part (b): complete-stack links (one connection at a time) on top of the sweep
        for i in range(n):             # fullstack = links with random configuration, fullstack_depaim = gen_depaim links
            if tier == "quick":
                descs[i].update(fullstack=1, fullstack_batches=3, fullstack_depaim=1)
            else:
                descs[i].update(fullstack=12, fullstack_batches=4, fullstack_depaim=6, fullstack_lag=2)
    return descs


if fullstack_available():
    REQUIRED = REQUIRED + ["fullstack_links", "radio_dep_chained", "fullstack_snep_put_checked", "fullstack_snep_get_checked",
                           "fullstack_ho_response_checked", "fullstack_dep_aimed_checked",
                           "radio_dep_chain_pni_wrap_i2t", "radio_dep_chain_pni_wrap_t2i"]
    ASSUMPTIONS = ASSUMPTIONS + ["part (b): vf.sim.fakenet delivers every datagram of nfc.clf.udp unchanged and in order (real-time clock mode)"]


# ---------------------------------------------------------------------------------------------------------------
# messages: canonical NDEF of an exact size with an embedded id
def _ndef():
    import ndef
    return ndef


def enc(records):
    return b"".join(_ndef().message_encoder(records))


def _payload(mid, n):
    """n payload octets: 4 octet id (as far as it fits) + a position dependent pattern derived from the id"""
    return (struct.pack(">L", mid & 0xFFFFFFFF) + random.Random(mid).randbytes(max(0, n - 4)))[:n] if n > 0 else b""


def pad_record(size, mid, tname="vf:m"):
    """one external-type record that encodes to exactly `size` octets (size >= 3 + len(tname))"""
    ndef = _ndef()
    t = len(tname)
    if size <= 3 + t + 255:
        return ndef.Record("urn:nfc:ext:" + tname, "", _payload(mid, size - 3 - t))
    if size < 6 + t + 256:             # a short record cannot be that long, a long record not that short: grow the type
        extra = size - (3 + t + 255)
        return ndef.Record("urn:nfc:ext:" + tname + "x" * extra, "", _payload(mid, 255))
    return ndef.Record("urn:nfc:ext:" + tname, "", _payload(mid, size - 6 - t))


def feasible_ndef_size(n):
    return 0 if n <= 0 else (3 if n < 4 else n)


def ndef_exact(size, mid):
    """NDEF message octets of exactly feasible_ndef_size(size) octets"""
    ndef = _ndef()
    size = feasible_ndef_size(size)
    if size == 0:
        m = b""
    elif size == 3:
        m = enc([ndef.Record()])
    elif size < 7:
        m = enc([ndef.Record("unknown", "", _payload(mid, size - 3))])
    elif size >= 40 and mid % 3 == 0:          # two records (MB/ME split over records)
        first = 7 + (mid % 11)
        m = enc([pad_record(first, mid, "vf:a"), pad_record(size - first, mid)])
    else:
        m = enc([pad_record(size, mid)])
    if len(m) != size or enc(list(ndef.message_decoder(m, known_types={}))) != m:
        raise RuntimeError("generator: NDEF message of size %d is not canonical" % size)
    return m


HO_MIN = {}


def _ho_base(kind, mid, carriers):
    ndef = _ndef()
    if kind == "Hr":
        rec = ndef.HandoverRequestRecord("1.3", mid & 0xFFFF)
    else:
        rec = ndef.HandoverSelectRecord("1.3")
    out = [rec]
    if carriers:
        rec.add_alternative_carrier("active", "c1")
        out.append(ndef.Record("application/vnd.bluetooth.ep.oob", "c1", b"\x08\x00" + struct.pack(">HL", 0x0102, mid & 0xFFFFFFFF)))
    return out


def ho_message(kind, size, mid):
    """valid Handover Request ('Hr') / Select ('Hs') message padded to exactly `size` octets where possible
    (smaller requests come out at their minimum size); returns octets"""
    ndef = _ndef()
    for carriers in (True, False):
        base = _ho_base(kind, mid, carriers)
        b = len(enc(base))
        if size >= b + 8:
            m = enc(base + [pad_record(size - b, mid, "vf:p")])
            break
        if size >= b and not carriers:
            m = enc(base)
            break
    else:
        m = enc(_ho_base(kind, mid, False))
    if enc(list(ndef.message_decoder(m, "relax"))) != m:
        raise RuntimeError("generator: handover message does not round trip")
    list(ndef.message_decoder(m, "strict", {}))
    return m


# ---------------------------------------------------------------------------------------------------------------
# multi-record messages whose RECORD boundaries sit at chosen octet offsets (aimed at the sender's fragment boundaries:
# handover has no length framing, the receiver decides "complete" by decoding what it has collected so far - a prefix
# that ends exactly between two records is the interesting input; SNEP carries the same shapes for completeness)
RB_D = (-2, -1, 0, 1, 2)
RB_GAP = 24                 # smallest record the builders are asked for
RB_HO_LO = 96               # first free record boundary of a handover message (behind the Hr/Hs record and a minimal record)


def record_offsets(msg):
    """start offsets of the NDEF records in `msg`: a structural walk over the record headers (MB/ME/CF/SR/IL/TNF octet,
    type length, payload length, id length), independent of ndeflib; used to *observe* where the boundaries of a
    verified message were relative to the fragment size of its connection"""
    offs, i, n = [], 0, len(msg)
    while i < n:
        offs.append(i)
        f, tl = msg[i], msg[i + 1]
        if f & 0x10:
            pl, j = msg[i + 2], i + 3
        else:
            pl, j = int.from_bytes(msg[i + 2:i + 6], "big"), i + 6
        il = 0
        if f & 0x08:
            il, j = msg[j], j + 1
        i = j + tl + il + pl
    if i != n:
        raise RuntimeError("generator: record walk does not end at the end of the message")
    return offs


def fit_record(make, size):
    """the record make(n, extra) (n payload octets, type name grown by `extra` characters) that encodes to exactly
    `size` octets; the type name grows where neither a short nor a long record can have that size"""
    for extra in range(5):
        base = len(enc([make(0, extra)]))
        for n in (size - base, size - base - 3):
            if n >= 0:
                r = make(n, extra)
                if len(enc([r])) == size:
                    return r
    raise RuntimeError("generator: no record of %d octets" % size)


def _rb_maker(kind, rid, pid):
    """kind 0: media-type record, 1: external-type record, 2: Handover Carrier record; `rid` = record id / reference"""
    ndef = _ndef()
    if kind == 0:
        return lambda n, x: ndef.Record("vf/c" + "x" * x, rid, _payload(pid, n))
    if kind == 1:
        return lambda n, x: ndef.Record("urn:nfc:ext:vf:r" + "x" * x, rid, _payload(pid, n))
    # (the carrier type is part of the Hc payload: where the payload length octets leave a gap a media-type record stands in)
    return lambda n, x: (ndef.Record("vf/h" + "x" * x, rid, _payload(pid, n)) if x else
                         ndef.HandoverCarrierRecord("vf/h", _payload(pid, n), rid or None))


def _check_rb(m, bounds, size, decode_args):
    ndef = _ndef()
    if len(m) != size or record_offsets(m) != [0] + list(bounds):
        raise RuntimeError("generator: record boundaries %r / size %d not met (%r, %d)" % (bounds, size, record_offsets(m)[1:], len(m)))
    if enc(list(ndef.message_decoder(m, *decode_args))) != m:
        raise RuntimeError("generator: multi-record message does not round trip")


def ndef_exact_rb(size, cuts, mid):
    """NDEF message of exactly `size` octets whose records start at 0 and at every offset in `cuts` (ascending)"""
    prng = random.Random(mid ^ 0x5EED)
    bounds = list(cuts) + [size]
    recs, at = [], 0
    for i, b in enumerate(bounds):
        rid = "" if prng.random() < 0.5 else "i%d" % i
        recs.append(fit_record(_rb_maker(prng.randrange(2), rid, 0x40000000 + mid * 16 + i), b - at))
        at = b
    m = enc(recs)
    _check_rb(m, cuts, size, ("strict", {}))
    return m


def ho_message_rb(kind, size, spec, mid):
    """valid Handover Request ('Hr') / Select ('Hs') message of exactly `size` octets with 2 + len(cuts) records:
    the Hr/Hs record (ending at spec['first'] when that is given: sized through the length of the carrier data reference
    = id of the carrier record), then records ending at each of spec['cuts'] and at `size`.  Every further record is a
    carrier configuration or auxiliary data record with an id that an alternative carrier record in the Hr/Hs record
    refers to.  Raises ValueError when spec['first'] cannot be met (the caller picks another shape)"""
    ndef = _ndef()
    prng = random.Random(mid ^ 0xB0D1)
    cuts, first = list(spec["cuts"]), spec.get("first")
    n = len(cuts) + 1
    roles = ["c"] + [prng.choice("ca") for _ in range(n - 1)]
    cps = [prng.choice(["active", "inactive", "activating", "unknown"]) for _ in range(n)]
    kinds = [prng.randrange(3) for _ in range(n)]
    owner = [prng.randrange(1 << 16) for _ in range(n)]

    def head(ids):
        rec = ndef.HandoverRequestRecord("1.3", mid & 0xFFFF) if kind == "Hr" else ndef.HandoverSelectRecord("1.3")
        acs = []
        for i, rid in enumerate(ids):
            if roles[i] == "c":
                acs.append([cps[i], rid, []])
            else:
                acs[owner[i] % len(acs)][2].append(rid)
        for c, r, a in acs:
            rec.add_alternative_carrier(c, r, *a)
        return rec

    ids = ["c%d" % (i + 1) for i in range(n)]
    if first is not None:
        for ln in range(1, 256):
            ids[0] = ("c1" + "r" * ln)[:ln]
            if len(enc([head(ids)])) == first:
                break
        else:
            raise ValueError("no %s record of %d octets" % (kind, first))
    recs = [head(ids)]
    at = len(enc(recs))
    bounds = [at] + cuts
    for i, b in enumerate(cuts + [size]):
        if b - at < 12 + len(ids[i]):
            raise ValueError("record %d of %d octets cannot carry its id" % (i + 1, b - at))
        recs.append(fit_record(_rb_maker(kinds[i], ids[i], 0x40000000 + mid * 16 + i), b - at))
        at = b
    m = enc(recs)
    _check_rb(m, bounds, size, ("relax",))
    list(ndef.message_decoder(m, "strict", {}))
    return m


# ---------------------------------------------------------------------------------------------------------------
# the book: what the server applications saw
class Book:
    def __init__(self):
        self.lock = threading.Lock()
        self.seq = 0
        self.entries = []
        self.get_plan = {}
        self.ho_plan = {}
        self.thread_exc = []
        self.tls = threading.local()
        self.bad_plan = {}          # non-compliant server: request octets -> complete SNEP response octets to send
        self.bad = []               # ... what it was asked and answered
        self.link = None

    def tick(self):
        with self.lock:
            self.seq += 1
            return self.seq

    def add(self, **e):
        with self.lock:
            self.seq += 1
            e["seq"] = self.seq
            e["claimed"] = False
            e["tid"] = threading.get_ident()
            self.entries.append(e)
        return e


_CLASSES = {}


def classes():
    """subclasses of the real nfcpy servers/clients (created after nfc has been imported from the tree under test)"""
    if _CLASSES:
        return _CLASSES
    import nfc
    import nfc.llcp
    import nfc.snep
    import nfc.handover
    ndef = _ndef()

    class RecSnepServer(nfc.snep.SnepServer):
        def __init__(self, llc, book, end, svc, **kw):
            self.vf_book, self.vf_end, self.vf_svc = book, end, svc
            super().__init__(llc, **kw)

        def process_snep_request(self, request_data):
            raw = bytes(request_data)
            kind = {1: "get", 2: "put"}.get(raw[1] if len(raw) > 1 else None, "other")
            e = self.vf_book.add(end=self.vf_end, svc=self.vf_svc, layer="raw", kind=kind, request=raw,
                                 octets=raw[10:] if kind == "get" else raw[6:],
                                 acc=struct.unpack(">L", raw[6:10])[0] if kind == "get" and len(raw) >= 10 else None)
            self.vf_book.tls.cur = e
            try:
                resp = super().process_snep_request(request_data)
            finally:
                self.vf_book.tls.cur = None
            e["resp"] = bytes(resp)
            return resp

        def _app(self, kind, records):
            octets = enc(records)
            cur = getattr(self.vf_book.tls, "cur", None)
            if cur is not None:
                cur["app_kind"], cur["app_octets"] = kind, octets
            else:
                self.vf_book.add(end=self.vf_end, svc=self.vf_svc, layer="app", kind=kind, octets=octets)
            return octets

        def process_put_request(self, records):
            self._app("put", records)
            return 0x81

        def process_get_request(self, records):
            key = self._app("get", records)
            with self.vf_book.lock:
                r = self.vf_book.get_plan.get(key)
            if r is None:
                return 0xC0
            return list(ndef.message_decoder(r, known_types={}))

        def _serve(self, client_socket):               # the accepted socket behind a pass-through proxy (LagSocket)
            return super()._serve(LagSocket(client_socket, self.vf_book.link, self.vf_end, "server", self.vf_svc))

    class BadSnepServer(nfc.snep.SnepServer):
        """NOT under test: a non-compliant SNEP peer (third service name).  Its Get responses carry a length field that
        exceeds the acceptable length the client announced, or that is larger than the octets it then sends; the real
        SnepServer._serve loop transmits what this method returns.  What it was asked and what it answered goes to
        book.bad (not to the entries of the servers under test)."""
        def __init__(self, llc, book, end, svc, **kw):
            self.vf_book, self.vf_end, self.vf_svc = book, end, svc
            super().__init__(llc, **kw)

        def process_snep_request(self, request_data):
            raw = bytes(request_data)
            if len(raw) >= 10 and raw[1] == 1:
                with self.vf_book.lock:
                    resp = self.vf_book.bad_plan.get(raw[10:])
                    if resp is not None:
                        self.vf_book.bad.append({"end": self.vf_end, "octets": raw[10:], "acc": struct.unpack(">L", raw[6:10])[0],
                                                 "resp": resp})
                if resp is not None:
                    return bytearray(resp)
            return bytearray(_MUTE)         # anything else (the client's Continue after a short response): stay silent

        def _serve(self, client_socket):
            return super()._serve(MuteSocket(client_socket))

    class RecHandoverServer(nfc.handover.HandoverServer):
        def __init__(self, llc, book, end, **kw):
            self.vf_book, self.vf_end = book, end
            super().__init__(llc, **kw)

        def serve(self, socket):
            return super().serve(LagSocket(socket, self.vf_book.link, self.vf_end, "server", "ho"))

        def _process_request_data(self, octets):      # observation of the raw octets only
            self.vf_book.tls.ho_raw = bytes(octets)
            try:
                return super()._process_request_data(octets)
            finally:
                self.vf_book.tls.ho_raw = None

        def process_handover_request_message(self, records):
            octets = enc(records)
            raw = getattr(self.vf_book.tls, "ho_raw", None)
            crn = getattr(records[0], "collision_resolution_number", None) if records else None
            # the application boundary is the record list: `octets` is its canonical encoding; `raw` (the buffer the
            # server decoded it from) is kept for the report only
            self.vf_book.add(end=self.vf_end, svc="ho", layer="app", kind="ho", octets=octets, raw=raw, crn=crn)
            with self.vf_book.lock:
                r = self.vf_book.ho_plan.get(octets)
            if r is None:
                return [ndef.HandoverSelectRecord("1.3")]
            return list(ndef.message_decoder(r, "relax"))

    class TunedSnepClient(nfc.snep.SnepClient):
        """an application that sets the receive MIU / window of its connection (same steps as SnepClient.connect)"""
        def __init__(self, llc, max_ndef_msg_recv_size, recv_miu, recv_buf):
            super().__init__(llc, max_ndef_msg_recv_size)
            self.vf_miu, self.vf_rw = recv_miu, recv_buf

        def connect(self, service_name):
            self.close()
            self.socket = nfc.llcp.Socket(self.llc, nfc.llcp.DATA_LINK_CONNECTION)
            self.socket.setsockopt(nfc.llcp.SO_RCVMIU, self.vf_miu)
            self.socket.setsockopt(nfc.llcp.SO_RCVBUF, self.vf_rw)
            self.socket.connect(service_name)
            self.send_miu = self.socket.getsockopt(nfc.llcp.SO_SNDMIU)

    _CLASSES.update(RecSnepServer=RecSnepServer, RecHandoverServer=RecHandoverServer, TunedSnepClient=TunedSnepClient,
                    BadSnepServer=BadSnepServer, nfc=nfc)
    return _CLASSES


_MUTE = b"vf.c06: the non-compliant server sends nothing"


class MuteSocket:
    """pass-through proxy for the non-compliant server: the marker answer is not sent at all (a peer that announced more
    octets than it sends simply stays silent afterwards)"""

    def __init__(self, sock):
        self.__dict__.update(vf_sock=sock)

    def __getattr__(self, name):
        return getattr(self.vf_sock, name)

    def send(self, data, *a, **kw):
        if bytes(data) == _MUTE:
            return True
        return self.vf_sock.send(data, *a, **kw)


class LagSocket:
    """Pass-through proxy of an nfc.llcp.Socket (public socket API only) that can make its application a LAGGING
    RECEIVER: while the link carries a lag spec for this side of the connection (link.lag, set by the client thread of
    a single-connection batch), recv() is held back until the wire has gone idle (LAG_SYMM consecutive SYMM frames,
    i.e. the sender has nothing it may send: its window is exhausted, or it waits for us); then as many recv() calls as
    PDUs were outstanding pass, and the next one is held again.  So the sender is driven into a full receive window
    over and over, also while its sequence numbers wrap.  What was outstanding when a recv() was released is read
    from the wire (I PDUs towards this socket minus recv() calls that returned) and counted; nothing here decides a
    verdict, a hold ends after LAG_CAP seconds at the latest."""

    def __init__(self, sock, link, end, side, svc):
        self.__dict__.update(vf_sock=sock, vf_link=link, vf_end=end, vf_side=side, vf_svc=svc, vf_taken=0, vf_free=0,
                             vf_key=None, vf_rw=None)

    def __getattr__(self, name):
        return getattr(self.vf_sock, name)

    def recv(self):
        spec = self.vf_link.lag
        if spec is not None and spec["side"] == self.vf_side and spec["end"] == self.vf_end and spec["svc"] == self.vf_svc:
            self.vf_hold()
        data = self.vf_sock.recv()
        if data is not None:
            self.vf_taken += 1
        return data

    def vf_hold(self):
        if self.vf_free > 0:
            self.vf_free -= 1
            return
        link, st = self.vf_link, self.vf_link.lag_stats
        if self.vf_key is None:
            import nfc.llcp
            towards = "A>B" if self.vf_end == "B" else "B>A"
            self.vf_key = (towards, self.vf_sock.getsockname(), self.vf_sock.getpeername())
            self.vf_rw = self.vf_sock.getsockopt(nfc.llcp.SO_RCVBUF)
        t0 = time.monotonic()
        idle = False
        while True:
            if link.symm_run >= LAG_SYMM:
                idle = True
                break
            if time.monotonic() - t0 > LAG_CAP or not link.alive():
                break
            time.sleep(0.001)
        out = link.lag_i.get(self.vf_key, 0) - self.vf_taken
        if not idle:
            st["lag_recv_released_by_cap"] = st.get("lag_recv_released_by_cap", 0) + 1
        elif out >= self.vf_rw:
            st["window_exhausted_before_recv"] = st.get("window_exhausted_before_recv", 0) + 1
            st.setdefault("rw", set()).add(self.vf_rw)
        else:
            st["lag_recv_released_idle_window_not_full"] = st.get("lag_recv_released_idle_window_not_full", 0) + 1
        st["max_out"] = max(st.get("max_out", 0), out)
        self.vf_free = max(1, min(out, self.vf_rw)) - 1


def other(end):
    return "B" if end == "A" else "A"


# ---------------------------------------------------------------------------------------------------------------
# one live link
class Link:
    kind = "pipe"
    exclusive = False           # True: only one such link may exist in the process at a time

    def __init__(self, cfg):
        from vf.sim.llcpair import ThreadedPair
        from vf.ref import llcp_ref
        self.ref = llcp_ref
        self.cfg = cfg
        self.book = Book()
        self.frames = []            # non-SYMM frames: (direction, bytes)
        self.symm_run = 0
        self.nframes = 0
        self.last_active = time.monotonic()
        self.servers = []
        self.history = set()        # octets of messages of finished transfers (stale detection)
        self.unjudged = set()       # messages of operations that ended INCONCLUSIVE
        self.book.link = self
        self.lag = None             # lagging-receiver spec of the connection in progress (see LagSocket)
        self.lag_i = {}             # (direction, dsap, ssap) -> I PDUs seen on the wire while a lag spec was active
        self.lag_stats = {}
        K = classes()

        def before_start(tp):
            for end, llc in (("A", tp.a), ("B", tp.b)):
                for i, s in enumerate(cfg["snep"][end]):
                    kw = dict(service_name=SVC_NAMES[i], recv_miu=s["recv_miu"], recv_buf=s["recv_buf"])
                    if s.get("max_len") is not None:
                        kw["max_acceptable_length"] = s["max_len"]
                    srv = K["BadSnepServer" if s.get("bad") else "RecSnepServer"](llc, self.book, end, "snep%d" % i, **kw)
                    srv.daemon = True
                    srv.start()
                    self.servers.append(srv)
                h = cfg["ho"][end]
                srv = K["RecHandoverServer"](llc, self.book, end, recv_miu=h["recv_miu"], recv_buf=h["recv_buf"])
                srv.daemon = True
                srv.start()
                self.servers.append(srv)

        opts = {e: {"miu": cfg["miu"][e], "lto": cfg.get("lto", 2500), "agf": bool(cfg["agf"][e])} for e in "AB"}
        self.tp = ThreadedPair(opts["A"], opts["B"], before_start=before_start)
        self.tp.pipe.keep_wire = False
        self.tp.pipe.observers.append(self._obs)

    def _obs(self, direction, data, _pdu):
        self.nframes += 1
        if data == b"\x00\x00":
            self.symm_run += 1
        else:
            self.symm_run = 0
            self.last_active = time.monotonic()
            self.frames.append((direction, data))
            if data[:2] == b"\x00\x80":
                self.agf_frames = getattr(self, "agf_frames", 0) + 1
            if self.lag is not None:
                try:
                    for p in self.ref.flatten(self.ref.decode(data)):
                        if p["t"] == "I":
                            k = (direction, p["dsap"], p["ssap"])
                            self.lag_i[k] = self.lag_i.get(k, 0) + 1
                except self.ref.Reject:
                    pass

    def start(self):
        ok = self.tp.start(timeout=10.0)
        self.last_active = time.monotonic()
        return ok

    def llc(self, end):
        return self.tp.a if end == "A" else self.tp.b

    def alive(self):
        tp = self.tp
        return bool(tp.ta.is_alive() and tp.tb.is_alive() and tp.a.link.ESTABLISHED and tp.b.link.ESTABLISHED
                    and not tp.pipe.broken)

    def settle(self, timeout=4.0):
        """wait until the wire has been idle (only SYMM) for SETTLE_SYMM consecutive frames"""
        t0 = time.monotonic()
        self.symm_run = 0
        while time.monotonic() - t0 < timeout:
            if self.symm_run >= SETTLE_SYMM:
                return True
            if not self.alive():
                return False
            time.sleep(0.002)
        return False

    def quiesce(self):
        """True when the link is quiescent: alive, wire idle (SETTLE_SYMM SYMM frames) at two looks in a row with no
        other frame in between, at both looks at least one SNEP/handover server thread exists and every one is parked
        waiting for input (untimed Condition.wait, not notified), none of them made progress between the looks, and the
        heartbeat thread of this process was scheduled at least HB_MIN_TICKS times in between (threads do get the CPU).
        Bounded by looks, not by time; False = not established (the caller reports INCONCLUSIVE, never a verdict)"""
        hb = heartbeat()
        for _ in range(QUIESCE_ROUNDS):
            if not self.alive():
                return False
            t0 = hb.ticks
            if not self.settle():
                continue
            p1, k1 = server_thread_state()
            if not p1:
                continue
            n = len(self.frames)
            if not self.settle():
                continue
            p2, k2 = server_thread_state()
            if p2 and k1 == k2 and len(self.frames) == n and self.alive() and hb.ticks - t0 >= HB_MIN_TICKS:
                return True
        return False

    def leaves(self, f0, f1):
        """decoded leaf PDUs of frames[f0:f1] as (direction, dict)"""
        out = []
        for d, b in self.frames[f0:f1]:
            try:
                for p in self.ref.flatten(self.ref.decode(b)):
                    out.append((d, p))
            except self.ref.Reject:
                out.append((d, {"t": "UNDECODABLE"}))
        return out

    def diag(self):
        tp = self.tp
        return "run_exc=%r linkA=%s linkB=%s runA=%s runB=%s broken=%s exchanges=%d" % (
            tp.run_exc, tp.a.link, tp.b.link, tp.ta.is_alive(), tp.tb.is_alive(), tp.pipe.broken, tp.pipe.exchanges)

    def report(self, R):
        R.count("wire_agf_frames", getattr(self, "agf_frames", 0))
        R.count("wire_frames", self.nframes)

    def kill(self):
        self.tp.pipe.broken = True

    def signal_stop(self):
        """ask the initiator run loop to end the link (DISC exchange); the threads end in the background"""
        self.tp.term_a = True

    def wait_stopped(self):
        if not self.tp.join(6.0):
            self.kill()
            self.tp.join(6.0)
        return not (self.tp.ta.is_alive() or self.tp.tb.is_alive())


# ---------------------------------------------------------------------------------------------------------------
# model of the negotiated connection MIUs (only used to aim message sizes at fragment boundaries)
def conn_mius(cfg, conn):
    e, s = conn["end"], other(conn["end"])
    if conn["proto"] == "snep":
        srv = cfg["snep"][s][conn["svc"]]
        cmiu = conn["tuned"]["miu"] if conn.get("tuned") else 128
    else:
        srv = cfg["ho"][s]
        cmiu = conn["miu"]
    up = min(srv["recv_miu"], cfg["miu"][s], 2175)          # client -> server
    down = min(cmiu, cfg["miu"][e], 2175)                   # server -> client
    return up, down


class Edges:
    """cycles through (k, offset, relative-to) so that every offset -7..+7 is hit, k small first"""
    def __init__(self, rng, maxk):
        self.rng, self.maxk, self.pool = rng, maxk, []

    def next(self):
        if not self.pool:
            self.pool = [(k, d) for d in EDGE for k in (1, 2)] + [(self.rng.randint(3, max(3, self.maxk)), d) for d in EDGE]
            self.rng.shuffle(self.pool)
        return self.pool.pop()


class ChainEdges:
    """(k, offset) for boundary chains: every offset -7..+7 for k = 1..3, offsets -1/0/+1 at k = 1, 1, 2 again twice
    (63 entries per cycle, 5 of them the exact single-fragment size k=1, offset 0)"""
    def __init__(self, rng):
        self.rng, self.pool = rng, []

    def next(self):
        if not self.pool:
            self.pool = [(k, d) for k in (1, 2, 3) for d in EDGE] + [(k, d) for k in (1, 1, 2) for d in (-1, 0, 1)] * 2
            self.rng.shuffle(self.pool)
        return self.pool.pop()


class RbEdges:
    """(k, d) for record boundaries: every offset -2..+2 around k * fragment size for k = 1..3, the exact coincidence
    d = 0 three times each (21 entries per cycle)"""
    def __init__(self, rng):
        self.rng, self.pool = rng, []

    def next(self):
        if not self.pool:
            self.pool = [(k, d) for k in (1, 2, 3) for d in (-2, -1, 0, 0, 0, 1, 2)]
            self.rng.shuffle(self.pool)
        return self.pool.pop()


def gen_rb_cuts(rng, kd, miu, hdr, ncuts, lo):
    """`ncuts` record boundaries (ascending offsets in the NDEF message) for a sender that slices at `miu` behind a
    protocol header of `hdr` octets: 1..3 of them at k*miu + d - hdr (distinct k in 1..3, the first one = kd, d in
    -2..+2), the others anywhere from `lo` on; returns (cuts, message size)"""
    k, d = kd
    nt = rng.randint(1, min(3, ncuts))
    ks = [k] + rng.sample([x for x in (1, 2, 3) if x != k], nt - 1)
    cuts = set(kk * miu + (d if kk == k else rng.choice(RB_D + (0, 0))) - hdr for kk in ks)
    top = max(cuts)
    for _ in range(40):
        if len(cuts) >= ncuts:
            break
        c = rng.randint(lo, top + miu)
        if all(abs(c - x) >= RB_GAP for x in cuts):
            cuts.add(c)
    cuts = sorted(cuts)
    tail = rng.randint(RB_GAP, 90) if rng.random() < 0.5 else rng.randint(RB_GAP, miu + 40)
    return cuts, cuts[-1] + tail


def gen_rb_ho(rng, rbe, miu, kind, mid):
    """size and record-boundary spec of one handover message with 2..5 records for a sender slicing at `miu`"""
    kd = rbe.next()
    nrec = rng.choice([2, 3, 3, 4, 5])
    if nrec == 2:
        # the only boundary is the end of the Hr/Hs record: possible while k*miu+d is within reach of one carrier reference
        for k in (kd[0], 1):
            spec = {"first": k * miu + kd[1], "cuts": []}
            size = spec["first"] + rng.randint(300, 300 + miu)
            try:
                ho_message_rb(kind, size, spec, mid)
                return size, spec
            except ValueError:
                pass
        nrec = 3
    cuts, size = gen_rb_cuts(rng, kd, miu, 0, nrec - 2, RB_HO_LO)
    return size, {"first": None, "cuts": cuts}


def gen_rb_ho_op(rng, rbe, edges, up, down, mids):
    """a handover dialogue whose request, select or both messages have record boundaries at the fragment boundaries"""
    op = {"op": "ho", "mid": next(mids), "rmid": next(mids)}
    sides = rng.choice(["q", "r", "r", "qr"])
    for side, miu, kind, mkey in (("q", up, "Hr", "mid"), ("r", down, "Hs", "rmid")):
        if side in sides:
            op["n" + side], op["rb" + side] = gen_rb_ho(rng, rbe, miu, kind, op[mkey])
        else:
            op["n" + side] = pick_size(rng, edges, miu, 0, floor=16)
    return op


def gen_rb_snep(rng, cfg, end, rbe, mids):
    """an explicit SNEP connection (default server, no limit in the way) whose put requests / get responses (some get
    requests) are multi-record messages with record boundaries at the fragment boundaries of the SNEP message"""
    conn = {"proto": "snep", "end": end, "svc": 0, "implicit": False, "tuned": None, "rb": True}
    if rng.random() < 0.5:
        conn["tuned"] = {"miu": rng.choice([128, 129, 200, 248, 2175, rng.randint(128, 2175)]),
                         "rw": rng.choice([1, 2, 15, rng.randint(1, 15)])}
    up, down = conn_mius(cfg, conn)
    ops = []
    for _ in range(rng.choice([1, 2, 2, 3])):
        if rng.random() < 0.5:
            cuts, size = gen_rb_cuts(rng, rbe.next(), up, 6, rng.randint(1, 4), RB_GAP)
            ops.append({"op": "put", "n": size, "rb": cuts, "mid": next(mids)})
        else:
            cuts, size = gen_rb_cuts(rng, rbe.next(), down, 6, rng.randint(1, 4), RB_GAP)
            op = {"op": "get", "nq": rng.choice([3, 20, rng.randint(4, 60)]), "nr": size, "rbr": cuts, "mid": next(mids),
                  "rmid": next(mids)}
            if rng.random() < 0.3:
                op["rbq"], op["nq"] = gen_rb_cuts(rng, rbe.next(), up, 10, rng.randint(1, 3), RB_GAP)
            ops.append(op)
    top = max([op["nr"] for op in ops if op["op"] == "get"] + [0])
    conn["acc"] = top + rng.choice([0, 1, 1000])
    conn["ops"] = ops
    return conn


def gen_chain(rng, cfg, end, cedges, mids):
    """an explicit SNEP connection whose operations put whole SNEP messages (header included) of k*MIU-7..k*MIU+7
    octets on the connection - get responses (6 octet header, client's receive MIU), put requests (6) and get requests
    (10, server's receive MIU) - each followed by at least one more operation; everything within the acceptable
    lengths, so that every operation has to be delivered and answered in full"""
    conn = {"proto": "snep", "end": end, "svc": 0 if rng.random() < 0.75 else 1, "implicit": False, "tuned": None,
            "chain": True}
    if rng.random() < 0.5:
        conn["tuned"] = {"miu": rng.choice([128, 129, 200, 248, 2175, rng.randint(128, 2175)]),
                         "rw": rng.choice([1, 2, 15, rng.randint(1, 15)])}
    up, down = conn_mius(cfg, conn)
    L = cfg["snep"][other(end)][conn["svc"]]["max_len"]
    nops = rng.choice([2, 3, 3, 4, 5])
    ops = []
    for i in range(nops):
        k, d = cedges.next()
        if rng.random() < (0.6 if i < nops - 1 else 0.3):
            nr = max(0, k * down + d - 6)
            if rng.random() < 0.7:
                nq = rng.choice([3, 20, rng.randint(4, 60)])
            else:
                k2, d2 = cedges.next()
                nq = max(0, k2 * up + d2 - 10)
            if L is not None and nq + 4 > L:
                nq = max(0, L - 4 - rng.randrange(8))
            ops.append({"op": "get", "nq": feasible_ndef_size(nq), "nr": feasible_ndef_size(nr), "mid": next(mids),
                        "rmid": next(mids)})
        else:
            n = max(0, k * up + d - 6)
            if L is not None and n > L:
                n = max(0, L - rng.randrange(8))
            ops.append({"op": "put", "n": feasible_ndef_size(n), "mid": next(mids)})
    top = max([op["nr"] for op in ops if op["op"] == "get"] + [0])
    conn["acc"] = top + rng.choice([0, 0, 1, 7, 1000])       # every answer is acceptable, often exactly
    conn["ops"] = ops
    return conn


def pick_size(rng, edges, miu, hdr, floor=0):
    """a message size aimed at a fragment boundary of a connection with MIU `miu` and protocol header `hdr`"""
    r = rng.random()
    if r < 0.62:
        k, d = edges.next()
        n = k * miu + d - (hdr if rng.random() < 0.6 else 0)
    elif r < 0.70:
        n = rng.choice([0, 3, 4, 5, 6, 7, 8, 20, 100, 255 + 7, 256 + 7, 263, 264, 265, 266])
    elif r < 0.85:
        n = rng.randint(0, miu)
    else:
        n = rng.randint(miu, 4 * miu)
    return max(floor, n)


def gen_cfg(rng):
    def miu():
        r = rng.random()
        if r < 0.5:
            return rng.randint(128, 300)
        if r < 0.8:
            return rng.choice([128, 129, 135, 136, 248, 249, 255, 256, 257, 512, 1024, 1984, 2047, 2175])
        return rng.randint(128, 2175)

    def sock(link_miu, default_miu, default_rw):
        r = rng.random()
        m = default_miu if r < 0.35 else (128 if r < 0.45 else (2175 if r < 0.5 else rng.randint(128, max(128, link_miu))))
        r = rng.random()
        w = default_rw if r < 0.35 else rng.choice([1, 2, 3, 15, rng.randint(1, 15)])
        return {"recv_miu": m, "recv_buf": w}

    cfg = {"miu": {"A": miu(), "B": miu()}, "agf": {"A": rng.random() < 0.5, "B": rng.random() < 0.5},
           "lto": 2500, "switch": rng.choice([0.005, 0.001, 0.0001]), "snep": {}, "ho": {}}
    for e in "AB":
        s0 = sock(cfg["miu"][e], 1984, 15)
        s0["max_len"] = None
        s1 = sock(cfg["miu"][e], 1984, 15)
        up = min(s1["recv_miu"], cfg["miu"][e])
        r = rng.random()
        if r < 0.5:
            s1["max_len"] = max(8, rng.choice([1, 2, 3]) * up + rng.choice(EDGE) - 6)
        elif r < 0.75:
            s1["max_len"] = rng.randint(8, up - 7)            # a single fragment can already be too long
        else:
            s1["max_len"] = rng.randint(up, 4 * up)
        s2 = sock(cfg["miu"][e], 1984, 15)
        s2.update(max_len=None, bad=True)                     # the non-compliant peer (BadSnepServer), not under test
        cfg["snep"][e] = [s0, s1, s2]
        cfg["ho"][e] = sock(cfg["miu"][e], 1984, 15)
    return cfg


def gen_bad(rng, cfg, end, mids):
    """one Get towards the non-compliant server: its response says more octets than the client's acceptable length
    ('over'), or more octets than it then sends ('short': the last 1..7 octets, a whole fragment or everything missing);
    acceptable lengths and response sizes around the fragment size of the connection, so that the lie is in the first
    fragment of a fragmented or in an unfragmented response"""
    conn = {"proto": "snep", "end": end, "svc": 2, "implicit": False, "tuned": None, "bad": True}
    if rng.random() < 0.5:
        conn["tuned"] = {"miu": rng.choice([128, 129, 200, 248, rng.randint(128, 2175)]), "rw": rng.choice([1, 2, 15])}
    _up, down = conn_mius(cfg, conn)
    A = max(0, rng.choice([0, 8, 60, down - 7, down - 6, down - 5, 2 * down - 6, 2 * down, 1024, rng.randint(0, 3 * down)]))
    if rng.random() < 0.5:
        mode, cut = "over", 0
        nr = feasible_ndef_size(A + rng.choice([1, 1, 1, 2, 3, 7, down, rng.randint(1, 3 * down)]))
    else:
        mode, A = "short", max(A, 8)
        nr = feasible_ndef_size(rng.choice([A, A, A - 1, max(4, A // 2), rng.randint(4, A)]))
        cut = min(nr, rng.choice([1, 1, 2, 7, down, nr]))
    conn["acc"] = A
    conn["ops"] = [{"op": "badget", "mode": mode, "nq": rng.randint(16, 60), "nr": nr, "cut": cut, "mid": next(mids), "rmid": next(mids)}]
    return conn


def gen_script(rng, cfg, nbatches, edges, mids):
    script = []
    # connections with several handover requests only on about a third of the links, so that most links live
    # through their whole script even while that sub-case has an open finding (a violation ends the link)
    ho_multi = rng.random() < 0.35
    cedges = getattr(edges, "chain", None)
    if cedges is None:
        cedges = edges.chain = ChainEdges(rng)
    rbe = getattr(edges, "rb", None)
    if rbe is None:
        rbe = edges.rb = RbEdges(rng)
    for _ in range(nbatches):
        nconn = 1 if rng.random() < 0.7 else 2
        batch = []
        for _c in range(nconn):
            end = rng.choice("AB")
            r = rng.random()
            if len(cfg["snep"][other(end)]) > 2 and rng.random() < BAD_SHARE:
                conn = gen_bad(rng, cfg, end, mids)
            elif r < 0.62 * CHAIN_SHARE:
                conn = gen_chain(rng, cfg, end, cedges, mids)
            elif r < 0.62 * CHAIN_SHARE + RB_SNEP_SHARE:
                conn = gen_rb_snep(rng, cfg, end, rbe, mids)
            elif r < 0.62:
                conn = {"proto": "snep", "end": end, "svc": 0 if rng.random() < 0.55 else 1}
                conn["implicit"] = conn["svc"] == 0 and rng.random() < 0.3
                conn["tuned"] = None
                if not conn["implicit"] and rng.random() < 0.5:
                    conn["tuned"] = {"miu": rng.choice([128, 129, 200, 248, 2175, rng.randint(128, 2175)]),
                                     "rw": rng.choice([1, 2, 15, rng.randint(1, 15)])}
                up, down = conn_mius(cfg, conn)
                L = cfg["snep"][other(end)][conn["svc"]]["max_len"]
                r = rng.random()
                if r < 0.2:
                    acc = 1024
                elif r < 0.7:
                    acc = max(0, rng.choice([1, 2, 3]) * down + rng.choice(EDGE) - 6)
                else:
                    acc = rng.randint(0, 4 * down)
                conn["acc"] = acc
                ops = []
                for _o in range(rng.choice([1, 1, 2, 2, 3, 4])):
                    mid = next(mids)
                    if rng.random() < 0.6:
                        if L is not None and rng.random() < 0.7:
                            r = rng.random()
                            n = L + rng.choice(EDGE) if r < 0.7 else (L + rng.randint(1, 3 * up) if r < 0.9 else rng.randint(0, L))
                        else:
                            n = pick_size(rng, edges, up, 6)
                        ops.append({"op": "put", "n": feasible_ndef_size(n), "mid": mid})
                    else:
                        if L is not None:
                            nq = max(0, L + rng.choice([-12, -9, -8, -7, -6, -5, -4, 1, 2, 5, up])) if rng.random() < 0.6 else rng.randint(0, max(0, L - 4))
                        elif rng.random() < 0.4:
                            nq = pick_size(rng, edges, up, 10)
                        else:
                            nq = rng.choice([3, 20, rng.randint(0, up)])
                        r = rng.random()
                        if r < 0.45:
                            nr = max(0, acc + rng.choice(EDGE))
                        elif r < 0.85:
                            nr = pick_size(rng, edges, down, 6)
                        else:
                            nr = rng.randint(0, max(1, acc))
                        ops.append({"op": "get", "nq": feasible_ndef_size(nq), "nr": feasible_ndef_size(nr), "mid": mid,
                                    "rmid": next(mids)})
                conn["ops"] = ops
            else:
                conn = {"proto": "ho", "end": end,
                        "miu": rng.choice([248, 248, 128, 129, rng.randint(128, 2175)]),
                        "rw": rng.choice([2, 2, 1, 15, rng.randint(1, 15)])}
                up, down = conn_mius(cfg, conn)
                ops = []
                for _o in range(rng.choice([1, 2, 2, 3]) if ho_multi else 1):
                    if rng.random() < RB_HO_SHARE:
                        ops.append(gen_rb_ho_op(rng, rbe, edges, up, down, mids))
                        continue
                    ops.append({"op": "ho", "nq": pick_size(rng, edges, up, 0, floor=16), "nr": pick_size(rng, edges, down, 0, floor=16),
                                "mid": next(mids), "rmid": next(mids)})
                conn["ops"] = ops
            batch.append(conn)
        if len(batch) > 1:             # concurrent connections: every message must carry a unique id
            for conn in batch:
                for op in conn["ops"]:
                    for k in ("n", "nq", "nr"):
                        if k in op and op[k] < 16 and op["op"] != "badget":
                            op[k] = 16 + op[k]
        script.append(batch)
    # size 0 (the empty NDEF message) is forced into every link: a put request, a get request and a get response of 0
    # octets on connections that are alone in their batch (ids cannot be embedded), half of them through the records
    # APIs (put_records([]) / get_records([]) = the empty record list)
    cands = [(conn, op) for batch in script if len(batch) == 1 for conn in batch if conn["proto"] == "snep"
             and not (conn.get("chain") or conn.get("rb") or conn.get("bad")) for op in conn["ops"]]
    rng.shuffle(cands)
    done = set()
    for conn, op in cands:
        want = [w for w in (("n",) if op["op"] == "put" else ("nq", "nr")) if w not in done]
        if not want:
            continue
        w = rng.choice(want)
        done.add(w)
        op[w] = 0
        if rng.random() < 0.5:
            op["api"] = "records"
        if len(done) == 3:
            break
    for batch in script:
        for conn in batch:
            for op in conn["ops"]:
                if op["op"] != "badget" and "api" not in op and rng.random() < RECORDS_SHARE:
                    op["api"] = "records"
    return script


SEQWRAP_RW = (1, 2, 15)


def gen_seqwrap(rng, rw, mids):
    """sequence-number wrap class: one link whose receiving sockets all have MIU 128 and receive window `rw`; single
    messages of more than 16 + rw fragments (up to 40) in each direction (SNEP put request, SNEP get response,
    handover request, handover select) and long-lived connections with at least 20 (34 for rw 15) operations, so
    that N(S)/N(R) of one data link connection go round the modulo-16 space past the window in one direction"""
    cfg = {"miu": {e: rng.choice([128, 128, 200, 2175]) for e in "AB"}, "agf": {e: rng.random() < 0.5 for e in "AB"},
           "lto": 2500, "switch": rng.choice([0.005, 0.001, 0.0001]), "snep": {}, "ho": {}}
    for e in "AB":
        cfg["snep"][e] = [{"recv_miu": 128, "recv_buf": rw, "max_len": None}, {"recv_miu": 128, "recv_buf": rw, "max_len": 8192}]
        cfg["ho"][e] = {"recv_miu": 128, "recv_buf": rw}
    lo, hi = 17 + rw, 40

    def frags():
        return rng.randint(lo, hi) * 128 + rng.choice([-1, 0, 0, 1])

    def snep(ops, kind, acc=1024):
        return {"proto": "snep", "end": rng.choice("AB"), "svc": rng.choice([0, 0, 1]), "implicit": False,
                "tuned": {"miu": 128, "rw": rw}, "acc": acc, "ops": ops, "seqwrap": kind}

    script = []
    script.append([snep([{"op": "put", "n": frags() - 6, "mid": next(mids)}], "single")])
    nr = frags() - 6
    script.append([snep([{"op": "get", "nq": rng.choice([3, 20, 60]), "nr": nr, "mid": next(mids), "rmid": next(mids)}], "single",
                        acc=nr + rng.choice([0, 1, 1000]))])
    script.append([{"proto": "ho", "end": rng.choice("AB"), "miu": 128, "rw": rw, "seqwrap": "single",
                    "ops": [{"op": "ho", "nq": frags(), "nr": frags(), "mid": next(mids), "rmid": next(mids)}]}])
    nops = rng.randint(20, 24) if rw < 15 else rng.randint(34, 36)
    ops = []
    for _ in range(nops):
        r = rng.random()
        big = r < 0.15
        if rng.random() < 0.5:
            ops.append({"op": "put", "n": feasible_ndef_size(rng.randint(130, 380) if big else rng.randint(0, 122)), "mid": next(mids)})
        else:
            ops.append({"op": "get", "nq": rng.choice([3, 20, rng.randint(4, 118)]), "mid": next(mids), "rmid": next(mids),
                        "nr": feasible_ndef_size(rng.randint(130, 380) if big else rng.randint(0, 122))})
    script.append([snep(ops, "long", acc=1024)])
    ops = [{"op": "ho", "nq": rng.randint(16, 128), "nr": rng.randint(16, 128), "mid": next(mids), "rmid": next(mids)}
           for _ in range(nops)]
    script.append([{"proto": "ho", "end": rng.choice("AB"), "miu": 128, "rw": rw, "seqwrap": "long", "ops": ops}])
    rng.shuffle(script)
    return cfg, script


def gen_lag(rng, rw, kinds, mids):
    """lagging-receiver class: one link whose receiving sockets all have MIU 128 and receive window `rw` (2..15); each
    connection (alone on the link) carries one message of 17+rw .. 20+rw fragments towards a receiver whose recv() is
    held back until the wire has gone idle (LagSocket): the sender runs into a full window again and again, also while
    N(S) wraps.  kinds: 'put' (request -> lagging SNEP server), 'get' (response -> lagging SNEP client), 'hoq' (handover
    request -> lagging handover server), 'hor' (select -> lagging handover client).  Oracle: the unchanged ones"""
    cfg = {"miu": {e: rng.choice([128, 128, 200, 2175]) for e in "AB"}, "agf": {e: rng.random() < 0.5 for e in "AB"},
           "lto": 2500, "switch": rng.choice([0.005, 0.001, 0.0001]), "snep": {}, "ho": {}}
    for e in "AB":
        cfg["snep"][e] = [{"recv_miu": 128, "recv_buf": rw, "max_len": None}, {"recv_miu": 128, "recv_buf": rw, "max_len": 8192}]
        cfg["ho"][e] = {"recv_miu": 128, "recv_buf": rw}

    def frags():
        return rng.randint(17 + rw, 20 + rw) * 128 + rng.choice([-1, 0, 0, 1])

    script = []
    for kind in kinds:
        n = frags()
        holds = (n // 128 + 1) // rw + 2
        if kind in ("put", "get"):
            conn = {"proto": "snep", "end": rng.choice("AB"), "svc": rng.choice([0, 0, 1]), "implicit": False,
                    "tuned": {"miu": 128, "rw": rw}, "acc": 1024}
            if kind == "put":
                conn["ops"] = [{"op": "put", "n": n - 6, "mid": next(mids)}]
            else:
                conn["acc"] = n - 6 + rng.choice([0, 1, 1000])
                conn["ops"] = [{"op": "get", "nq": rng.choice([3, 20, 60]), "nr": n - 6, "mid": next(mids), "rmid": next(mids)}]
        else:
            small = rng.randint(16, 128)
            conn = {"proto": "ho", "end": rng.choice("AB"), "miu": 128, "rw": rw,
                    "ops": [{"op": "ho", "nq": n if kind == "hoq" else small, "nr": n if kind == "hor" else small,
                             "mid": next(mids), "rmid": next(mids)}]}
        conn["lag"] = {"side": "server" if kind in ("put", "hoq") else "client", "kind": kind}
        conn["timeout"] = CALL_TIMEOUT + 1.0 * holds       # every hold costs two idle SYMM turns of real time (more under load)
        script.append([conn])
    return cfg, script


def materialize(conn):
    """octets of every message of a connection script (deterministic in sizes and ids)"""
    ndef = _ndef()
    for op in conn["ops"]:
        if op["op"] == "put":
            op["_msg"] = ndef_exact_rb(op["n"], op["rb"], op["mid"]) if op.get("rb") else ndef_exact(op["n"], op["mid"])
        elif op["op"] == "get":
            op["_msg"] = ndef_exact_rb(op["nq"], op["rbq"], op["mid"]) if op.get("rbq") else ndef_exact(op["nq"], op["mid"])
            op["_resp"] = ndef_exact_rb(op["nr"], op["rbr"], op["rmid"]) if op.get("rbr") else ndef_exact(op["nr"], op["rmid"])
        elif op["op"] == "badget":
            # what the non-compliant server puts on the connection: a Success header whose length field says len(_resp),
            # followed by all but the last `cut` octets of _resp
            op["_msg"] = ndef_exact(op["nq"], op["mid"])
            op["_resp"] = ndef_exact(op["nr"], op["rmid"])
            op["_wire_resp"] = struct.pack(">BBL", 0x10, 0x81, len(op["_resp"])) + op["_resp"][:len(op["_resp"]) - op["cut"]]
        else:
            op["_msg"] = ho_message_rb("Hr", op["nq"], op["rbq"], op["mid"]) if op.get("rbq") else ho_message("Hr", op["nq"], op["mid"])
            op["_resp"] = ho_message_rb("Hs", op["nr"], op["rbr"], op["rmid"]) if op.get("rbr") else ho_message("Hs", op["nr"], op["rmid"])
        if op.get("api") == "records":
            # the records APIs: the application hands over / gets back ndef.Record lists; they stand for the octets only
            # where the decoder the API uses round-trips them (checked here, otherwise the octets API is used)
            try:
                if op["op"] in ("put", "get"):
                    recs = list(ndef.message_decoder(op["_msg"], known_types={}))
                    ok = enc(recs) == op["_msg"]
                    if op["op"] == "get":
                        ok = ok and enc(list(ndef.message_decoder(op["_resp"]))) == op["_resp"]
                        if ok and not recs:
                            op["_empty_list"] = True           # get_records([]): "no request message" (see run_conn)
                            op["_msg"] = b"\xd0\x00\x00"
                elif op["op"] == "ho":
                    recs = list(ndef.message_decoder(op["_msg"], "relax"))
                    ok = enc(recs) == op["_msg"] and enc(list(ndef.message_decoder(op["_resp"], "relax"))) == op["_resp"]
                else:
                    ok = False
            except Exception:
                ok = False
            if ok:
                op["_records"] = recs
            else:
                op["api"] = "octets"


def strip(script):
    """JSON-able copy of a script without the materialized octets / results"""
    return [[{k: ([{a: b for a, b in op.items() if not a.startswith("_")} for op in v] if k == "ops" else v)
              for k, v in conn.items() if not k.startswith("_")} for conn in batch] for batch in script]


# ---------------------------------------------------------------------------------------------------------------
# running the client side of one connection (helper thread)
def conn_timeout(conn):
    return conn.get("timeout", CALL_TIMEOUT)


def run_conn(link, conn, res):
    from vf.core.rec import exc_sig
    K = classes()
    nfc = K["nfc"]
    book = link.book
    llc = link.llc(conn["end"])
    res["ops"] = []
    res["phase"] = "connect"
    cl = None
    tmo = conn_timeout(conn)
    lag = conn.get("lag")
    if lag:
        # lagging receiver (single-connection batch): the spec names the receiving side whose recv() is held back
        link.lag_i.clear()
        link.lag = {"side": lag["side"], "end": conn["end"] if lag["side"] == "client" else other(conn["end"]),
                    "svc": "ho" if conn["proto"] == "ho" else "snep%d" % conn["svc"]}
    try:
        if conn["proto"] == "snep":
            if conn.get("tuned"):
                cl = K["TunedSnepClient"](llc, conn["acc"], conn["tuned"]["miu"], conn["tuned"]["rw"])
            else:
                cl = nfc.snep.SnepClient(llc, max_ndef_msg_recv_size=conn["acc"])
            if not conn.get("implicit"):
                cl.connect(SVC_NAMES[conn["svc"]])
                res["send_miu"] = cl.socket.getsockopt(nfc.llcp.SO_SNDMIU)
                res["recv_miu"] = cl.socket.getsockopt(nfc.llcp.SO_RCVMIU)
                res["sap"] = cl.socket.getsockname()
            else:
                # put_octets / get_octets connect by themselves through the public connect(): note the local SAP of
                # each of these connections (attribution of wire frames in concurrent batches), nothing else changes
                inner_connect = cl.connect

                def connect(service_name):
                    inner_connect(service_name)
                    res["sap_now"] = cl.socket.getsockname()
                cl.connect = connect
        else:
            cl = nfc.handover.HandoverClient(llc)
            cl.connect(recv_miu=conn["miu"], recv_buf=conn["rw"])
            res["send_miu"] = cl.socket.getsockopt(nfc.llcp.SO_SNDMIU)
            res["recv_miu"] = cl.socket.getsockopt(nfc.llcp.SO_RCVMIU)
            res["sap"] = cl.socket.getsockname()
        if lag and lag["side"] == "client" and cl.socket is not None:
            cl.socket = LagSocket(cl.socket, link, conn["end"], "client", link.lag["svc"])
    except Exception as e:
        res["connect_exc"] = (exc_sig(e), repr(e))
        link.lag = None
        return
    # what the octets-level call underneath a records-API call returned (same client object, observation only)
    seen = {}
    if any(op.get("api") == "records" for op in conn["ops"]):
        for name in ("get_octets", "recv_octets"):
            inner = getattr(cl, name, None)
            if inner is not None:
                def spy(*a, _inner=inner, _name=name, **kw):
                    seen[_name] = "raised"
                    v = _inner(*a, **kw)
                    seen[_name] = v
                    return v
                setattr(cl, name, spy)
    try:
        for i, op in enumerate(conn["ops"]):
            res["phase"] = "op%d:%s" % (i, op["op"])
            o = {"seq0": book.tick(), "f0": len(link.frames)}
            res["sap_now"] = None
            res["cur"] = (i, o)          # the call in progress (looked at when the thread blocks)
            rec_api = op.get("api") == "records"
            seen.clear()
            t0 = time.monotonic()
            try:
                if op["op"] == "put":
                    if rec_api:
                        o["outcome"] = ("ret", cl.put_records(op["_records"], timeout=tmo))
                    else:
                        o["outcome"] = ("ret", cl.put_octets(op["_msg"], timeout=tmo))
                elif op["op"] == "get":
                    with book.lock:
                        book.get_plan[op["_msg"]] = op["_resp"]
                        if op.get("_empty_list"):
                            book.get_plan[b""] = op["_resp"]
                    if rec_api:
                        v = cl.get_records(op["_records"], timeout=tmo)
                        if v is not None:
                            v = enc(v)
                        elif isinstance(seen.get("get_octets"), (bytes, bytearray)) and len(seen["get_octets"]) < 3:
                            # get_records() has no record list for a message of less than 3 octets: the octets-level
                            # call underneath (same client) tells an empty message from a failed call
                            v = bytes(seen["get_octets"])
                            o["records_none_for_short"] = True
                    else:
                        v = cl.get_octets(op["_msg"], timeout=tmo)
                    o["outcome"] = ("ret", None if v is None else bytes(v))
                elif op["op"] == "badget":
                    with book.lock:
                        book.bad_plan[op["_msg"]] = op["_wire_resp"]
                    v = cl.get_octets(op["_msg"], timeout=BAD_TIMEOUT)
                    o["outcome"] = ("ret", None if v is None else bytes(v))
                else:
                    with book.lock:
                        book.ho_plan[op["_msg"]] = op["_resp"]
                    ok = cl.send_records(op["_records"]) if rec_api else cl.send_octets(op["_msg"])
                    o["sent_dt"] = time.monotonic() - t0
                    v = None
                    if ok and rec_api:
                        try:
                            recs = cl.recv_records(timeout=tmo)
                            v = enc(recs) if recs else None
                        except TypeError:
                            # recv_records() formats its log line with hexlify(octets): raises when recv_octets() gave
                            # up and returned None.  Not a statement about delivery - handled as "nothing received"
                            if seen.get("recv_octets", "raised") is not None:
                                raise
                            o["recv_records_typeerror_after_none"] = True
                    elif ok:
                        v = cl.recv_octets(timeout=tmo)
                    o["outcome"] = ("ret", ok, None if v is None else bytes(v))
                    if v is None or bytes(v) != op["_resp"]:
                        o["cut"] = True      # workload control: the dialogue is out of step, do not go on with it
            except nfc.snep.SnepError as e:
                o["outcome"] = ("snep", e.errno)
            except Exception as e:
                o["outcome"] = ("exc", exc_sig(e), repr(e)[:200])
            o["dt"] = time.monotonic() - t0
            if op.get("_empty_list"):
                # get_records([]) stands for "no request message": nfcpy sends one empty record (D0 00 00) for it; an
                # empty message (0 octets) would be just as faithful - the message of this operation is what arrived
                with book.lock:
                    arrived = [e["octets"] for e in book.entries if e["seq"] > o["seq0"] and e["layer"] == "raw" and e["kind"] == "get"]
                if b"" in arrived and op["_msg"] not in arrived:
                    op["_msg"] = b""
            if o["dt"] >= 0.9 * tmo and op["op"] != "badget":
                # the call (probably) gave up by its time-out: was anything still moving at that moment?  Closing the
                # connection afterwards cuts a transfer that was merely slow - only a wire that was already idle with
                # every server thread waiting for input lets the wire content speak about "never" (no clock involved)
                o["idle1"] = bool(link.symm_run >= SETTLE_SYMM and server_threads_parked())
            if res.get("sap_now") is not None:
                o["sap"] = res["sap_now"]
            o["seq1"] = book.tick()
            o["f1"] = len(link.frames)
            res["ops"].append(o)
            res["cur"] = None
            if o["outcome"][0] == "exc" or o["dt"] >= 0.9 * tmo or o.get("cut") or op["op"] == "badget":
                res["cut"] = True        # state of the connection is unknown after a time-out: do not go on
                break
        res["phase"] = "close"
    finally:
        try:
            cl.close()
        except Exception as e:
            res["close_exc"] = repr(e)
        link.lag = None
        res["phase"] = "done"


def thread_stack(th):
    fr = sys._current_frames().get(th.ident)
    return "".join(traceback.format_stack(fr)[-8:]) if fr is not None else "?"


_HB = []
HB_MIN_TICKS = 8            # heartbeat ticks (2 ms sleeps of a thread of this process) required between the two looks


def heartbeat():
    """vf.core.watch.Heartbeat of this process: evidence that threads get scheduled (a starved runnable thread on a loaded
    machine must not be mistaken for a blocked one); only ever used to withhold a verdict"""
    if not _HB:
        from vf.core import watch
        _HB.append(watch.Heartbeat().start())
    return _HB[0]


def _untimed_unnotified_wait(frame):
    """vf.core.watch.classify: the thread sits in threading.Condition.wait(timeout=None) called from nfc code and nobody
    has notified it yet (a notified waiter - its waiter lock already released - is about to run: not parked)"""
    from vf.core import watch
    info = watch.classify(frame)
    return bool(info.kind == "cond-wait" and info.timeout is None and info.notified is not True and info.in_nfc)


def parked_without_timeout(th):
    """the thread is inside threading.Condition.wait(timeout=None) and has not been notified"""
    fr = sys._current_frames().get(th.ident)
    try:
        return bool(fr is not None and _untimed_unnotified_wait(fr))
    except Exception:
        return False


_SERVER_FILES = ("/nfc/snep/server.py", "/nfc/handover/server.py")


def server_thread_state():
    """(parked, key): parked is True when at least one thread is inside the SNEP / handover server code and every such
    thread is parked in an untimed Condition.wait that nobody has notified yet (it waits for the LLC: accept(), poll(),
    recv(), send() with a full window).  No server thread at all -> False: the guard has nothing to stand on.
    key = progress indicator of those threads (vf.core.watch.thread_key: innermost frame identity and instruction
    offset); two looks with the same key = zero progress in between.  Looks at frames only.
    Used as a guard that can only withhold a 'never delivered' verdict."""
    from vf.core import watch
    me = threading.get_ident()
    frames = sys._current_frames()
    key = {}
    for tid, inner in frames.items():
        if tid == me:
            continue
        f = inner
        while f is not None:
            if f.f_code.co_filename.replace("\\", "/").endswith(_SERVER_FILES):
                break
            f = f.f_back
        if f is None:
            continue                # not a server thread
        try:
            if not _untimed_unnotified_wait(inner):
                return False, None
        except Exception:
            return False, None
        key[tid] = watch.thread_key(tid, frames)
    if not key:
        return False, None
    return True, key


def server_threads_parked():
    return server_thread_state()[0]


# ---------------------------------------------------------------------------------------------------------------
# evaluation
def classify(got, msg, history):
    if got in history and got != msg:
        return "stale-redelivery"
    if len(got) < len(msg) and msg.startswith(got):
        return "delivered-altered/truncated"
    if len(got) > len(msg) and got.startswith(msg):
        return "delivered-altered/appended"
    if len(got) == len(msg):
        return "delivered-altered/content"
    return "delivered-altered/length"


def outcome_tag(out):
    if out[0] == "ret":
        v = out[1]
        return "returned-%s" % ("octets" if isinstance(v, (bytes, bytearray)) else v)
    if out[0] == "snep":
        return "SnepError-%02X" % out[1]
    return "raised"


class Evaluator:
    def __init__(self, link, R, cfg, script_prefix):
        self.link, self.R, self.cfg = link, R, cfg
        self.case = {"kind": link.kind, "cfg": cfg, "script": script_prefix}
        self.nviol = 0
        self.unverified = 0          # operations of the batch that were not verified end to end (any reason)
        self.stale_tids = set()      # server threads already reported for re-delivering an earlier message

    def viol(self, sig, what, conn, opi):
        self.nviol += 1
        conn["_violated"] = True
        case = dict(self.case)
        case["where"] = {"conn": {k: v for k, v in conn.items() if not k.startswith("_") and k != "ops"}, "op": opi}
        self.R.violation(sig, what, case)

    def entries(self, srv_end, svc, layer, seq0, seq1=None, unclaimed=True):
        out = []
        for e in self.link.book.entries:
            if e["end"] == srv_end and e["svc"] == svc and e["layer"] == layer and e["seq"] > seq0 \
                    and (seq1 is None or e["seq"] < seq1) and not (unclaimed and e["claimed"]):
                out.append(e)
        return out

    def delivery(self, proto, kind, conn, opi, o, srv_end, svc, layer, msg, batch_msgs, success, timed_out):
        """exactly-once / identical clause for one message that had to be delivered; returns True if fine"""
        link, R = self.link, self.R
        cand = self.entries(srv_end, svc, layer, o["seq0"])
        match = [e for e in cand if e["octets"] == msg and e["kind"] == kind and e["seq"] < o["seq1"]]
        quiescent = None
        if not match:
            late = [e for e in cand if e["octets"] == msg and e["kind"] == kind]
            if not late and success:
                link.settle()
                cand = self.entries(srv_end, svc, layer, o["seq0"])
                late = [e for e in cand if e["octets"] == msg and e["kind"] == kind]
            if not late and success and timed_out:
                # the call completed with "success" without a response (its time-out ran out): decided on the
                # quiescent link - the book is read after quiescence has been established
                quiescent = link.quiesce()
                cand = self.entries(srv_end, svc, layer, o["seq0"])
                late = [e for e in cand if e["octets"] == msg and e["kind"] == kind]
                if late:
                    R.count("late_delivery_after_client_timeout")
            match = late[:1]
            if match:
                R.count("late_delivery")
        for e in match:
            e["claimed"] = True
        pfx = "%s/%s" % (proto, "request" if proto == "handover" else kind)
        if len(match) > 1:
            self.viol(pfx + "/duplicate-delivery", "%s message of %d octets reached the peer application %d times"
                      % (kind, len(msg), len(match)), conn, opi)
            return False
        if len(match) == 1:
            e = match[0]
            ao = e.get("app_octets")
            if ao is None and layer == "raw":
                # the complete request reached process_snep_request: the application boundary is process_put_request /
                # process_get_request, which must have been called with it (looked at once the server call has ended)
                if "resp" not in e:
                    link.settle()
                if "resp" not in e:
                    R.inconc("%s %s: the server is still inside process_snep_request" % (proto, kind))
                    return False
                ao = e.get("app_octets")
                if ao is None:
                    self.viol("%s/%s/request-not-given-to-application" % (proto, kind),
                              "the complete %d octet %s request reached the server (answered with code %02Xh) but process_%s_request "
                              "was never called with the message; client outcome %s"
                              % (len(msg), kind, e["resp"][1] if len(e["resp"]) > 1 else 0, kind, outcome_tag(o["outcome"])), conn, opi)
                    return False
            if ao is not None and ao != msg:
                self.viol("%s/%s/app-octets-differ" % (proto, kind),
                          "records given to the application encode to %d octets, the message has %d" % (len(ao), len(msg)), conn, opi)
                return False
            if e.get("app_kind") not in (None, kind):
                self.viol("%s/%s/app-kind-differs" % (proto, kind), "request handled as %r" % e.get("app_kind"), conn, opi)
                return False
            return True
        # nothing equal to the message: did the application get something else inside the call window?
        wrong = [e for e in self.entries(srv_end, svc, layer, o["seq0"], o["seq1"]) if e["octets"] not in conn["_others"]]
        if wrong:
            for e in wrong:
                e["claimed"] = True
            how = classify(wrong[0]["octets"], msg, link.history)
            extra = ""
            if how == "stale-redelivery":
                extra = " (an earlier message of this link, delivered %d more time(s))" % len(wrong)
                self.stale_tids.update(e["tid"] for e in wrong)
            self.viol("%s/%s" % (pfx, how), "peer application got %d octets instead of the %d octet %s message%s; client outcome %s"
                      % (len(wrong[0]["octets"]), len(msg), kind, extra, outcome_tag(o["outcome"])), conn, opi)
            return False
        if not success:
            return None           # caller reports the client-side failure
        if timed_out:
            # (a) the call returned success, (b) the quiescent link never delivered: "arrives exactly once" is broken
            # whatever made the client say success; the wire only names the mechanism
            if not quiescent:
                R.inconc("%s %s: client call reported success without a response and nothing was delivered, but the link "
                         "is not quiescent (alive=%s, server threads parked=%s)" % (proto, kind, link.alive(), server_threads_parked()))
                return False
            R.count("timed_out_calls_judged_at_quiescence")
            fate = self.request_fate(conn, conn["ops"][opi], o)
            if fate is None:
                self.viol(pfx + "/lost-after-success/no-response", "client call reported success (no response arrived), the link is "
                          "quiescent, the peer application never got the %d octet %s message" % (len(msg), kind), conn, opi)
            elif not fate["complete"]:
                self.viol(pfx + "/lost-after-success/request-incomplete-on-wire", "the client call reported success (no response "
                          "arrived) and the link is quiescent, but only %d information octets went to the server for a %d octet "
                          "request (first difference at octet %d)" % (fate["sent"], fate["need"], fate["diff"]), conn, opi)
            else:
                self.viol(pfx + "/lost-after-success/request-complete-on-wire" + self.never_answered(conn, opi, fate),
                          "client call reported success (no response arrived); "
                          "the whole %d octet request crossed the link in %d I PDU(s) (%s by the server's connection), the "
                          "server sent %d I PDU(s) back, the link is quiescent with every server thread waiting for input - the "
                          "peer application never got the %d octet %s message"
                          % (fate["need"], fate["pdus"], "all acknowledged" if fate["acked"] else "not acknowledged",
                             fate["down"], len(msg), kind), conn, opi)
            return False
        if not link.alive() or not link.quiesce():
            R.inconc("%s %s: message missing at the peer application but the link is not alive/quiescent" % (proto, kind))
            return False
        cand = self.entries(srv_end, svc, layer, o["seq0"])
        late = [e for e in cand if e["octets"] == msg and e["kind"] == kind]
        if late:
            for e in late:
                e["claimed"] = True
            R.count("late_delivery")
            R.inconc("%s %s: the message reached the peer application only while the link was being watched for quiescence" % (proto, kind))
            return False
        sent = self.wire_bytes(conn, o)
        self.viol(pfx + "/lost-after-success" + self.never_answered(conn, opi, self.request_fate(conn, conn["ops"][opi], o)),
                  "client call reported success, link idle, the peer application never got "
                  "the %d octet %s message%s" % (len(msg), kind, sent), conn, opi)
        return False

    def blocked_call(self, conn, res):
        """the client thread is blocked inside a call: did the peer application meanwhile get something that is not
        the message of that call (e.g. an earlier message again)?  That is a verdict independent of the blocking."""
        opi, o = res["cur"]
        op = conn["ops"][opi]
        if op["op"] == "badget":
            return
        proto = "snep" if conn["proto"] == "snep" else "handover"
        svc, layer = ("ho", "app") if proto == "handover" else ("snep%d" % conn["svc"], "raw")
        kind = "ho" if proto == "handover" else op["op"]
        wrong = [e for e in self.entries(other(conn["end"]), svc, layer, o["seq0"])
                 if e["octets"] not in conn["_others"] and e["octets"] != op["_msg"]]
        if not wrong:
            return
        for e in wrong:
            e["claimed"] = True
        how = classify(wrong[0]["octets"], op["_msg"], self.link.history)
        if how == "stale-redelivery":
            self.stale_tids.update(e["tid"] for e in wrong)
        pfx = "%s/%s" % (proto, "request" if proto == "handover" else kind)
        self.viol("%s/%s" % (pfx, how), "while the client call was still sending the %d octet %s message the peer application was "
                  "called %d time(s) with other octets (%d octets); the client call then blocked"
                  % (len(op["_msg"]), kind, len(wrong), len(wrong[0]["octets"])), conn, opi)

    def deadlocked_call(self, conn, res, th):
        """the client thread is still inside a call.  A verdict only for a deadlock that is visible as a structure, not
        as elapsed time: the client thread is parked in a wait without time-out, the link is quiescent (alive, wire
        idle at two looks, every server thread parked waiting for input) and the message of the call - which is within
        every limit - was never given to the peer application: nothing is left that could ever deliver it"""
        cur = res.get("cur")
        if not cur:
            return
        opi, o = cur
        op = conn["ops"][opi]
        link = self.link
        if op["op"] == "badget":
            return                      # the peer is the non-compliant server: nothing has to be delivered
        if not op_expects_delivery(self.cfg, conn, op) and not op_expect_refusal(self.cfg, conn, op, strict=True):
            return                      # (get request in the zone the statement does not decide)
        if not (parked_without_timeout(th) and link.quiesce() and parked_without_timeout(th)) or res.get("cur") is not cur:
            return
        if not op_expects_delivery(self.cfg, conn, op):
            # an over-size request has to be refused with the protocol's error response: none went out and none will
            codes = self.snep_codes_since(conn, o)
            if codes is not None and not any(c >= 0xC0 for c in codes):
                self.R.count("deadlocked_calls_judged_at_quiescence")
                self.viol("snep/%s/oversize/no-error-response-on-wire/client-call-deadlocked" % op["op"]
                          + self.never_answered(conn, opi, self.request_fate(conn, op, o)),
                          "the client call for an over-size %s request (%d octets) waits without time-out, the link is quiescent "
                          "with every server thread waiting for input and no SNEP error response went to the client"
                          % (op["op"], len(op["_msg"])), conn, opi)
            return
        proto = "snep" if conn["proto"] == "snep" else "handover"
        svc, layer = ("ho", "app") if proto == "handover" else ("snep%d" % conn["svc"], "raw")
        kind = "ho" if proto == "handover" else op["op"]
        if [e for e in self.entries(other(conn["end"]), svc, layer, o["seq0"], unclaimed=False) if e["octets"] == op["_msg"]]:
            return                      # delivered: the blocked call is not a statement about delivery
        fate = self.request_fate(conn, op, o)
        wire = "" if fate is None else (" (%d of %d request octets crossed the link in %d I PDU(s), %s; %d I PDU(s) came back)"
                                        % (min(fate["sent"], fate["need"]), fate["need"], fate["pdus"],
                                           "all acknowledged" if fate["acked"] else "not acknowledged", fate["down"]))
        self.R.count("deadlocked_calls_judged_at_quiescence")
        pfx = "%s/%s" % (proto, "request" if proto == "handover" else kind)
        self.viol(pfx + "/never-delivered/client-call-deadlocked" + self.never_answered(conn, opi, fate),
                  "the client call for a %d octet %s message waits without time-out, "
                  "the link is quiescent with every server thread waiting for input, and the peer application never got the "
                  "message%s" % (len(op["_msg"]), kind, wire), conn, opi)

    def wire_streams(self, conn, o):
        """concatenated information octets of the I PDUs client->server and server->client since the call began;
        None when the frames cannot be attributed to this connection (concurrent batch without a known client SAP)"""
        res = conn.get("_res") or {}
        sap = res.get("sap")
        if not conn.get("_single") and sap is None:
            return None
        d_up = "A>B" if conn["end"] == "A" else "B>A"
        up, down = bytearray(), bytearray()
        for d, p in self.link.leaves(o["f0"], len(self.link.frames)):
            if p["t"] != "I":
                continue
            if d == d_up and (sap is None or p["ssap"] == sap):
                up += p["data"]
            elif d != d_up and (sap is None or p["dsap"] == sap):
                down += p["data"]
        return bytes(up), bytes(down)

    def wire_pdus(self, conn, o):
        """I / RR / RNR PDUs of this connection since the call began, in wire order, as (up?, pdu); None when the
        frames cannot be attributed (concurrent batch without a known client SAP)"""
        res = conn.get("_res") or {}
        sap = res.get("sap") or o.get("sap") or (res.get("sap_now") if res.get("cur") and res["cur"][1] is o else None)
        if not conn.get("_single") and sap is None:
            return None
        d_up = "A>B" if conn["end"] == "A" else "B>A"
        out = []
        for d, p in self.link.leaves(o["f0"], len(self.link.frames)):
            if p["t"] not in ("I", "RR", "RNR"):
                continue
            if d == d_up and (sap is None or p["ssap"] == sap):
                out.append((True, p))
            elif d != d_up and (sap is None or p["dsap"] == sap):
                out.append((False, p))
        return out

    def conn_pdu_types(self, conn, o):
        """types of the PDUs the server's side sent on this connection since the call began; None = not attributable"""
        res = conn.get("_res") or {}
        sap = res.get("sap") or o.get("sap")
        if not conn.get("_single") and sap is None:
            return None
        d_up = "A>B" if conn["end"] == "A" else "B>A"
        return set(p["t"] for d, p in self.link.leaves(o["f0"], len(self.link.frames))
                   if d != d_up and (sap is None or p.get("dsap") == sap))

    def request_fate(self, conn, op, o):
        """what the wire shows about the request of one call: did all its octets cross, in how many I PDUs, were they
        acknowledged by the server's data link connection (N(R) moves when the serving thread's recv() has taken
        them), how many I PDUs came back.  None = frames not attributable"""
        pdus = self.wire_pdus(conn, o)
        if pdus is None:
            return None
        req = wire_request(conn, op)
        up = bytearray()
        npdus, last_ns, last_at = 0, None, None
        for i, (is_up, p) in enumerate(pdus):
            if is_up and p["t"] == "I" and len(up) < len(req):
                up += p["data"]
                npdus += 1
                last_ns, last_at = p["ns"], i
        k = 0
        while k < min(len(up), len(req)) and up[k] == req[k]:
            k += 1
        complete = bytes(up[:len(req)]) == req
        acked, down = False, 0
        if last_at is not None:          # N(R) behind the last request I PDU that crossed = all of them were taken
            for is_up, p in pdus[last_at + 1:]:
                if not is_up:
                    if p["nr"] == (last_ns + 1) % 16:
                        acked = True
                    if p["t"] == "I":
                        down += 1
        self.R.count("timed_out_calls_checked_on_wire")
        return {"complete": complete, "sent": len(up), "need": len(req), "diff": k, "pdus": npdus, "acked": acked, "down": down,
                "answered": any(not is_up for is_up, _p in pdus)}

    @staticmethod
    def never_answered(conn, opi, fate):
        """signature discriminator: the lost message was the first of its connection and the server side never sent
        an I, RR or RNR PDU on that connection - the connection was lost at set-up, not in the middle of a dialogue"""
        first = opi == 0 or bool(conn.get("implicit"))
        return "/connection-never-answered" if first and fate is not None and not fate["answered"] else ""

    def snep_codes_since(self, conn, o):
        """response codes of the header-only SNEP responses the server sent to this connection since the call began
        (frames up to now, not only up to the end of the call); None when not attributable"""
        pdus = self.wire_pdus(conn, o)
        if pdus is None or conn["proto"] != "snep":
            return None
        codes = []
        for is_up, p in pdus:
            b = p.get("data", b"") if p["t"] == "I" else b""
            if not is_up and len(b) == 6 and b[0] >> 4 == 1 and b[2:6] == b"\x00\x00\x00\x00":
                codes.append(b[1])
        return codes

    def never_delivered(self, conn, opi, o, srv_end, svc, layer, msg, kind, sigpfx, text):
        """a call that gave up by its time-out although the message was within every limit: True (reported) when the
        quiescent link shows that the whole request crossed and the server application was never called with it"""
        link = self.link
        if not link.quiesce():
            return False
        if [e for e in self.entries(srv_end, svc, layer, o["seq0"], unclaimed=False) if e["octets"] == msg and e["kind"] == kind]:
            self.R.count("late_delivery_after_client_timeout")
            return False                 # delivered after the client had given up: a slow run, nothing to conclude
        self.R.count("timed_out_calls_judged_at_quiescence")
        fate = self.request_fate(conn, conn["ops"][opi], o)
        if fate is not None and not fate["complete"]:
            return False                 # (reported by wire_request_incomplete before; kept for safety)
        if fate is None:
            self.viol(sigpfx + "/no-response", "%s; the link is quiescent and the server application was never called with the "
                      "message" % text, conn, opi)
        else:
            self.viol(sigpfx + "/request-complete-on-wire" + self.never_answered(conn, opi, fate),
                      "%s; the whole %d octet request crossed the link in %d I PDU(s) (%s by "
                      "the server's connection), the server sent %d I PDU(s) back, the link is quiescent with every server thread "
                      "waiting for input - the server application was never called with the message"
                      % (text, fate["need"], fate["pdus"], "all acknowledged" if fate["acked"] else "not acknowledged",
                         fate["down"]), conn, opi)
        return True

    def wire_request_incomplete(self, conn, opi, o, sigpfx):
        """a call ended by its time-out: if the link is idle and the octets that crossed the wire are not the whole
        request, the message can never arrive - a verdict that does not depend on the time-out.  True = reported"""
        op = conn["ops"][opi]
        if not o.get("idle1"):
            self.R.count("timed_out_calls_not_idle_at_give_up")
            return False
        if not self.link.alive() or not self.link.settle():
            return False
        ws = self.wire_streams(conn, o)
        if ws is None:
            return False
        req = wire_request(conn, op)
        up = ws[0]
        self.R.count("timed_out_calls_checked_on_wire")
        if up[:len(req)] == req:
            return False
        k = 0
        while k < min(len(up), len(req)) and up[k] == req[k]:
            k += 1
        self.viol(sigpfx + "/request-incomplete-on-wire", "the client call ended (time-out) and the link is idle, but only %d "
                  "information octets went to the server for a %d octet request (first difference at octet %d)"
                  % (len(up), len(req), k), conn, opi)
        return True

    def wire_response_incomplete(self, conn, opi, o, resp, sig):
        if (conn.get("lag") or {}).get("side") == "client":
            # lagging-receiver class: the harness itself held the client's recv() back; a response that stopped at the
            # full window when the client's time-out ran out is explained by that, not by the server
            self.R.count("timed_out_calls_of_a_lagging_client_not_judged_on_the_wire")
            return False
        if not o.get("idle1"):           # the transfer was still moving when the client gave up (slow run): no verdict
            self.R.count("timed_out_calls_not_idle_at_give_up")
            return False
        if not self.link.alive() or not self.link.settle():
            return False
        ws = self.wire_streams(conn, o)
        if ws is None:
            return False
        self.R.count("timed_out_calls_checked_on_wire")
        if resp in ws[1]:
            return False
        self.viol(sig, "the client call ended (time-out) and the link is idle, but the %d octet response is not contained in the "
                  "%d information octets that went to the client" % (len(resp), len(ws[1])), conn, opi)
        return True

    def wire_bytes(self, conn, o):
        if not conn.get("_single"):
            return ""
        tot = 0
        d_up = "A>B" if conn["end"] == "A" else "B>A"
        for d, p in self.link.leaves(o["f0"], o["f1"]):
            if d == d_up and p["t"] == "I":
                tot += len(p["data"])
        return " (%d information octets went client->server during the call)" % tot

    def wire_stats(self, conn, o):
        """I PDUs and SNEP control responses seen during one transfer of a single-connection batch"""
        d_up = "A>B" if conn["end"] == "A" else "B>A"
        up = down = 0
        codes = []
        for d, p in self.link.leaves(o["f0"], o["f1"]):
            if p["t"] == "I":
                if d == d_up:
                    up += 1
                else:
                    down += 1
                    b = p["data"]
                    if conn["proto"] == "snep" and len(b) >= 6 and b[0] >> 4 == 1:
                        ln = struct.unpack(">L", b[2:6])[0]
                        if len(b) == 6 and ln == 0:
                            codes.append(b[1])
            self.R.seen("wire_pdu_types", p["t"])
        return up, down, codes


def wire_request(conn, op):
    """the octets the SNEP 1.0 / Connection Handover 1.x framing puts on the data link connection for a request"""
    if op["op"] == "put":
        return struct.pack(">BBL", 0x10, 0x02, len(op["_msg"])) + op["_msg"]
    if op["op"] == "get":
        return struct.pack(">BBLL", 0x10, 0x01, 4 + len(op["_msg"]), conn["acc"]) + op["_msg"]
    return op["_msg"]


def evaluate_batch(ev, batch, results):
    link, R, cfg = ev.link, ev.R, ev.cfg
    batch_msgs = set()
    for conn in batch:
        for op in conn["ops"]:
            batch_msgs.add(op["_msg"])
    for conn in batch:                  # messages of the *other* concurrent connections of this batch
        conn["_others"] = batch_msgs - set(op["_msg"] for op in conn["ops"])
    single = len(batch) == 1
    oversize_seen = False
    for conn, res in zip(batch, results):
        conn["_single"] = single
        conn["_res"] = res
        proto = "snep" if conn["proto"] == "snep" else "handover"
        srv_end = other(conn["end"])
        if "connect_exc" in res or len(res.get("ops", [])) < len(conn["ops"]):
            ev.unverified += 1
        if "connect_exc" in res:
            if link.alive():
                ev.viol("escape/%s/connect/%s" % (proto, res["connect_exc"][0]), "connect raised %s" % res["connect_exc"][1], conn, -1)
            else:
                R.inconc("connect failed on a dead link: %s" % res["connect_exc"][1])
            continue
        if "send_miu" in res:
            R.seen("conn_send_miu", res["send_miu"])
            R.seen("conn_recv_miu", res["recv_miu"])
            model = conn_mius(cfg, conn)
            if (res["send_miu"], res["recv_miu"]) != model:
                R.count("miu_model_mismatch")
        for opi, (op, o) in enumerate(zip(conn["ops"], res["ops"])):
            if opi > 0 and conn["proto"] == "snep" and not conn.get("implicit"):
                note_followed(R, cfg, conn, res, conn["ops"][opi - 1])
            ok = eval_op(ev, conn, res, opi, op, o, srv_end, batch_msgs, single)
            if ok is not True:
                ev.unverified += 1
            link.history.add(op["_msg"])
            if "_resp" in op:
                link.history.add(op["_resp"])
            if op.get("_oversize"):
                oversize_seen = True
            if ok is True and opi == len(conn["ops"]) - 1 and single:
                note_connection_totals(R, cfg, conn, res)
            if ok is False and not conn.get("_violated"):
                link.unjudged.add(op["_msg"])      # ended INCONCLUSIVE: a late delivery of this message proves nothing
            if ok is False:
                # nothing later on this connection is judged: its application calls are consequences
                R.count("conn_rest_skipped_after_violation", len(res["ops"]) - opi - 1)
                rest = set()
                for op2 in conn["ops"][opi + 1:]:
                    rest.add(op2["_msg"])
                    link.history.add(op2["_msg"])
                svc = "ho" if conn["proto"] == "ho" else "snep%d" % conn["svc"]
                for e in link.book.entries:
                    if e["end"] == srv_end and e["svc"] == svc and e["seq"] > o["seq1"] and \
                            (e["octets"] in rest or len(batch) == 1):
                        e["claimed"] = True
                break
    return oversize_seen


def note_connection_totals(R, cfg, conn, res):
    """evidence: I PDUs one data link connection carried in one direction while all its transfers were verified (the
    last one just now); more than 16 + RW(receiver) means the sequence numbers went round past the window"""
    up = sum(o.get("nup", 0) for o in res["ops"])
    down = sum(o.get("ndown", 0) for o in res["ops"])
    R.max("max_i_pdus_one_direction_per_connection", max(up, down))
    R.max("max_operations_per_connection", len(res["ops"]))
    if conn.get("seqwrap"):
        srv = cfg["ho"][other(conn["end"])] if conn["proto"] == "ho" else cfg["snep"][other(conn["end"])][conn["svc"]]
        rw_up = srv["recv_buf"]
        rw_down = conn["rw"] if conn["proto"] == "ho" else conn["tuned"]["rw"]
        wrapped = [d for d, n, rw in (("request", up, rw_up), ("response", down, rw_down)) if n > 16 + rw]
        for d in wrapped:
            R.seen("seqwrap_%s_receive_window" % d, rw_up if d == "request" else rw_down)
            R.seen("seqwrap_kind", "%s-%s-%s" % (conn["proto"], conn["seqwrap"], d))
        if wrapped:
            R.count("seqwrap_transfers" if conn["seqwrap"] == "single" else "seqwrap_long_connections")


def note_followed(R, cfg, conn, res, prev):
    """evidence: a verified operation whose whole SNEP message (header included) ended within 7 octets of a multiple
    of the connection MIU was followed by a further operation on the same connection (which is judged next)"""
    if not prev.get("_full"):
        return
    up_miu, down_miu = res.get("send_miu"), res.get("recv_miu")
    if up_miu is None:
        up_miu, down_miu = conn_mius(cfg, conn)
    if prev["op"] == "put":
        parts = [("put_request", len(prev["_msg"]) + 6, up_miu)]
    else:
        parts = [("get_request", len(prev["_msg"]) + 10, up_miu), ("get_response", len(prev["_resp"]) + 6, down_miu)]
    hit = False
    for name, n, miu in parts:
        k = (n + miu // 2) // miu
        d = n - k * miu
        if k >= 1 and -7 <= d <= 7:
            hit = True
            R.seen("followed_%s_offset" % name, d)
            if d == 0:
                R.count("followed_%s_exactly_k_miu" % name)
                if k == 1:
                    R.count("followed_%s_exactly_one_miu" % name)
    if hit:
        R.count("followed_boundary_ops")


def note_record_boundaries(R, name, msg, hdr, miu):
    """evidence: where the record boundaries of a message that was just verified at the receiving application were,
    relative to the fragment size `miu` the sender of that connection slices at (`hdr` protocol header octets in front
    of the NDEF message); read from the message itself (record_offsets), not from the generator's intention"""
    offs = record_offsets(msg)[1:]
    if not offs:
        return
    exact = near = False
    for b in offs:
        k = (b + hdr + miu // 2) // miu
        d = b + hdr - k * miu
        if k >= 1 and -2 <= d <= 2 and len(msg) + hdr > k * miu:
            near = True
            R.seen("record_boundary_offset/%s" % name, d)
            R.seen("record_boundary_k/%s" % name, k if k <= 3 else ">3")
            if d == 0:
                exact = True
    if near:
        R.count("record_boundary_near_fragment_boundary/%s" % name)
        R.seen("record_boundary_records/%s" % name, len(offs) + 1)
    if exact:
        R.count("record_boundary_at_fragment_boundary/%s" % name)
        R.seen("record_boundary_exact_records/%s" % name, len(offs) + 1)


def eval_op(ev, conn, res, opi, op, o, srv_end, batch_msgs, single):
    link, R, cfg = ev.link, ev.R, ev.cfg
    out = o["outcome"]
    timed_out = o["dt"] >= 0.9 * conn_timeout(conn)
    up_miu, down_miu = res.get("send_miu"), res.get("recv_miu")
    if up_miu is None:
        up_miu, down_miu = conn_mius(cfg, conn)
    role = "initiator" if conn["end"] == "A" else "target"
    agf = (cfg["agf"]["A"], cfg["agf"]["B"])
    if out[0] == "exc":
        proto = "snep" if conn["proto"] == "snep" else "handover"
        if not link.alive():
            R.inconc("%s %s raised on a dead link: %s" % (proto, op["op"], out[2]))
            return False
        ev.viol("escape/%s/%s/%s" % (proto, op["op"], out[1]), "client call raised %s" % out[2], conn, opi)
        return False

    if single:
        nup, ndown, codes = ev.wire_stats(conn, o)
        o["nup"], o["ndown"] = nup, ndown
        R.count("wire_I_pdus", nup + ndown)
        R.seen("fragments_per_request", nup)
        R.seen("fragments_per_response", ndown)
        R.max("fragments_per_request", nup)
        R.max("fragments_per_response", ndown)
        for c in codes:
            if c == 0x80:
                R.count("wire_snep_continue")
            elif c == 0xFF:
                R.count("wire_snep_reject")
            elif c == 0xC1:
                R.count("wire_snep_excess_data")
    else:
        nup = ndown = None
        codes = None

    def checked(name, *sizes):
        """a transfer was verified end to end (counter `name`): what else it stands for"""
        R.count(name)
        api = op.get("api", "octets")
        R.count("api_%s_checked/%s" % (api, name.replace("_checked", "")))
        if api == "records" and op.get("_records") == []:
            R.count("records_api_empty_list_checked")
            R.seen("records_api_empty_list_kind", op["op"])
        if op.get("_empty_list"):
            R.seen("get_records_empty_list_arrived_as", "%d octets" % len(op["_msg"]))
        if o.get("records_none_for_short"):
            R.count("get_records_returned_None_for_a_message_shorter_than_3_octets")
        for what, n in sizes:
            if n == 0:
                R.count("zero_size_checked")
                R.seen("zero_size_kind", "%s/%s" % (what, api))
            elif n == 3:
                R.seen("size_3_kind", "%s/%s" % (what, api))
        if link.kind == "fullstack":
            R.count("fullstack_" + name)
            R.seen("fullstack_client_role", role)
            dep = cfg.get("dep", {})
            R.seen("fullstack_checked_lri_lrt", "%s/%s" % (dep.get("lri"), dep.get("lrt")))
            R.seen("fullstack_checked_acm", bool(dep.get("acm")))
            if conn.get("depaim"):
                R.count("fullstack_dep_aimed_checked")
        if conn.get("lag"):
            R.count("lagging_transfers_checked")
            R.seen("lagging_kind", "%s-%s-%s" % (conn["proto"], op["op"], conn["lag"]["side"]))

    def edge_note(name, n, hdr, miu):
        for h in (0, hdr):
            d = (n + h) % miu
            d = d - miu if d > miu // 2 else d
            if -7 <= d <= 7 and n + h >= miu - 7:
                R.seen("%s_offset_%s" % (name, "wire" if h else "ndef"), d)
                R.count("boundary_sizes_hit")

    # ------------------------------------------------------------------------------------------- SNEP put
    if op["op"] == "put":
        msg = op["_msg"]
        n = len(msg)
        svc = "snep%d" % conn["svc"]
        L = cfg["snep"][srv_end][conn["svc"]]["max_len"]
        L = SNEP_DEFAULT_MAX if L is None else L
        key = ("put", n, up_miu, role, agf, cfg["snep"][srv_end][conn["svc"]]["recv_buf"], n - L if abs(n - L) <= 8 else None,
               bool(conn.get("implicit")))
        if n <= L:
            success = out == ("ret", True)
            r = ev.delivery("snep", "put", conn, opi, o, srv_end, svc, "raw", msg, batch_msgs, success, timed_out)
            R.case(key)
            if r is False:
                return False
            if not success:
                if out == ("ret", None) and timed_out:
                    R.inconc("snep put ended by the client time-out")
                    return False
                ev.viol("snep/put/refused-within-limit/%s" % outcome_tag(out),
                        "put of %d octets (server accepts %d) -> %s%s" % (n, L, outcome_tag(out), "" if r is None else " although the server application got the message"), conn, opi)
                return False
            checked("snep_put_checked", ("put", n))
            op["_full"] = True
            edge_note("put", n, 6, up_miu)
            note_record_boundaries(R, "snep_put", msg, 6, up_miu)
            if n + 6 > up_miu:
                R.count("fragmented_requests")
            if abs(n - L) <= 8:
                R.seen("put_limit_relation", n - L)
            if R.evals % 97 == 1:
                R.sample({"put": n, "send_miu": up_miu, "client_role": role, "request_I_pdus": nup, "snep_control": codes})
            return True
        # over-size put
        op["_oversize"] = True
        R.case(key)
        got = [e for e in ev.entries(srv_end, svc, "raw", o["seq0"]) + ev.entries(srv_end, svc, "app", o["seq0"])
               if e["octets"] not in (batch_msgs - {msg})]
        if got:
            for e in got:
                e["claimed"] = True
            part = "delivered" if got[0]["octets"] == msg else "delivered-partial"
            ev.viol("snep/put/oversize/%s" % part, "put of %d octets to a server accepting %d: the application got %d octets"
                    % (n, L, len(got[0]["octets"])), conn, opi)
            return False
        if not (out == ("ret", False) or (out[0] == "snep" and out[1] >= 0xC0)):
            if out == ("ret", True) and timed_out:
                # success only because no response arrived in time: on the quiescent link either the error response
                # never went out (the refusal clause is broken) or it came after the client had given up (undecided)
                codes_now = ev.snep_codes_since(conn, o) if link.quiesce() else None
                if codes_now is not None and not any(c >= 0xC0 for c in codes_now):
                    R.count("timed_out_calls_judged_at_quiescence")
                    ev.viol("snep/put/oversize/no-error-response-on-wire" + ev.never_answered(conn, opi, ev.request_fate(conn, op, o)),
                            "put of %d octets to a server accepting %d reported success (no response arrived) and the quiescent "
                            "link shows no SNEP error response" % (n, L), conn, opi)
                    return False
                R.inconc("over-size put: client call ended by its time-out")
                return False
            tag = "reported-success" if out == ("ret", True) else "outcome-" + outcome_tag(out)
            ev.viol("snep/put/oversize/%s" % tag, "put of %d octets to a server accepting %d -> %s" % (n, L, outcome_tag(out)), conn, opi)
            return False
        if single and not any(c >= 0xC0 for c in codes):
            ev.viol("snep/put/oversize/no-error-response-on-wire", "no SNEP error response on the wire for an over-size put", conn, opi)
            return False
        R.count("snep_put_oversize_refused")
        R.seen("put_limit_relation", n - L if n - L <= 8 else "+far")
        R.seen("oversize_put_outcome", outcome_tag(out))
        if n + 6 > up_miu:
            R.count("oversize_put_fragmented")
        return True

    # ------------------------------------------------------------------------------- SNEP get, non-compliant server
    if op["op"] == "badget":
        q, A, mode = op["_msg"], conn["acc"], op["mode"]
        declared, sent = op["nr"], op["nr"] - op["cut"]
        R.case(("badget", mode, len(q), declared, op["cut"], A, down_miu, role, agf, declared + 6 > down_miu, bool(conn.get("tuned"))),
               nontrivial=any(b["octets"] == q for b in link.book.bad))
        if not any(b["octets"] == q and b["acc"] == A for b in link.book.bad):
            R.count("badget_server_not_consulted")
            if not link.alive():
                R.inconc("get from the non-compliant server on a dead link")
                return False
            return None
        name = "overlong-response" if mode == "over" else "short-response"
        if out[0] == "ret" and out[1] is not None:
            got = out[1]
            part = "delivered" if got == op["_resp"] else "delivered-partial"
            ev.viol("snep/get/%s/%s" % (name, part),
                    "the server answered a get (acceptable length %d) with a response whose length field says %d octets and sent %d "
                    "of them: the client returned %d octets instead of None / SnepError" % (A, declared, sent, len(got)), conn, opi)
            return False
        R.count("client_%s_refused" % name.replace("-", "_"))
        R.seen("client_%s_outcome" % name.replace("-", "_"), outcome_tag(out))
        R.seen("client_%s_fragmented" % name.replace("-", "_"), declared + 6 > down_miu)
        if mode == "over":
            R.seen("client_overlong_relation", declared - A if declared - A <= 8 else "+far")
        else:
            R.seen("client_short_response_missing_octets", op["cut"] if op["cut"] <= 8 else "+far")
        return True

    # ------------------------------------------------------------------------------------------- SNEP get
    if op["op"] == "get":
        q, rsp = op["_msg"], op["_resp"]
        nq, nr, A = len(q), len(rsp), conn["acc"]
        svc = "snep%d" % conn["svc"]
        L = cfg["snep"][srv_end][conn["svc"]]["max_len"]
        L = SNEP_DEFAULT_MAX if L is None else L
        key = ("get", nq, nr, up_miu, down_miu, role, agf, nr - A if abs(nr - A) <= 8 else None,
               nq - L if abs(nq - L) <= 12 else None, bool(conn.get("implicit")), bool(conn.get("tuned")))
        R.case(key)
        if nq > L or nq + 4 > L:
            zone = nq <= L              # NDEF fits, information field does not: outside the verdict
            op["_oversize"] = True
            got = [e for e in ev.entries(srv_end, svc, "raw", o["seq0"]) if e["octets"] not in (batch_msgs - {q})]
            if zone:
                for e in got:
                    e["claimed"] = True
                R.count("get_request_zone_delivered" if got else "get_request_zone_refused")
                if got and not (out[0] == "ret" and out[1] == rsp) and not (nr > A and out == ("snep", 0xC1)):
                    R.count("get_request_zone_other_outcome")
                return True
            if got:
                for e in got:
                    e["claimed"] = True
                ev.viol("snep/get/oversize/%s" % ("delivered" if got[0]["octets"] == q else "delivered-partial"),
                        "get request of %d octets to a server accepting %d reached the application (%d octets)" % (nq, L, len(got[0]["octets"])), conn, opi)
                return False
            if not (out == ("ret", None) or (out[0] == "snep" and out[1] >= 0xC0)):
                ev.viol("snep/get/oversize/outcome-%s" % outcome_tag(out), "over-size get request -> %s" % outcome_tag(out), conn, opi)
                return False
            if single and not any(c >= 0xC0 for c in codes):
                ev.viol("snep/get/oversize/no-error-response-on-wire", "no SNEP error response on the wire for an over-size get request", conn, opi)
                return False
            R.count("snep_get_oversize_refused")
            return True
        # outcomes that say "the server application was consulted": an answer, or a code the application /
        # the answer-size check produces (Not Found, Excess Data, Not Implemented)
        delivered_ok = (out[0] == "snep" and out[1] in (0xC0, 0xC1, 0xE0)) or (out[0] == "ret" and out[1] is not None)
        r = ev.delivery("snep", "get", conn, opi, o, srv_end, svc, "raw", q, batch_msgs, delivered_ok, timed_out)
        if r is False:
            return False
        if r is None:
            if out == ("ret", None) and timed_out:
                if not ev.wire_request_incomplete(conn, opi, o, "snep/get/lost") and not ev.never_delivered(
                        conn, opi, o, srv_end, svc, "raw", q, "get", "snep/get/refused-within-limit/returned-None",
                        "get request of %d octets (server accepts %d), answer of %d octets (client accepts %d) -> the call "
                        "gave up and returned None" % (nq, L, nr, A)):
                    R.inconc("snep get ended by the client time-out")
                return False
            ev.viol("snep/get/refused-within-limit/%s" % outcome_tag(out), "get request of %d octets (server accepts %d) -> %s, nothing delivered"
                    % (nq, L, outcome_tag(out)), conn, opi)
            return False
        if nr <= A:
            if out[0] == "ret" and out[1] == rsp:
                checked("snep_get_checked", ("get_request", nq if not op.get("_empty_list") else 0), ("get_response", nr))
                op["_full"] = True
                edge_note("get_request", nq, 10, up_miu)
                edge_note("get_response", nr, 6, down_miu)
                note_record_boundaries(R, "snep_get_request", q, 10, up_miu)
                note_record_boundaries(R, "snep_get_response", rsp, 6, down_miu)
                if nq + 10 > up_miu:
                    R.count("fragmented_requests")
                if nr + 6 > down_miu:
                    R.count("fragmented_responses")
                if abs(nr - A) <= 8:
                    R.seen("get_acceptable_relation", nr - A)
                if R.evals % 97 == 2:
                    R.sample({"get_request": nq, "response": nr, "acceptable": A, "send_miu": up_miu, "recv_miu": down_miu,
                              "request_I_pdus": nup, "response_I_pdus": ndown})
                return True
            if out == ("ret", None) and timed_out:
                if not ev.wire_response_incomplete(conn, opi, o, struct.pack(">BBL", 0x10, 0x81, nr) + rsp,
                                                   "snep/get/response-incomplete-on-wire"):
                    R.inconc("snep get ended by the client time-out")
                return False
            if out[0] == "ret" and out[1] is not None:
                how = classify(out[1], rsp, link.history).replace("delivered-altered/", "")
                ev.viol("snep/get/response-differs/%s" % how, "get returned %d octets, the server application answered %d octets"
                        % (len(out[1]), nr), conn, opi)
                return False
            ev.viol("snep/get/refused-within-limit/%s" % outcome_tag(out), "get with acceptable length %d, answer %d octets -> %s"
                    % (A, nr, outcome_tag(out)), conn, opi)
            return False
        # answer longer than the client's acceptable length
        if out[0] == "ret" and out[1] is not None:
            ev.viol("snep/get/excess/delivered", "get with acceptable length %d returned %d octets of a %d octet answer" % (A, len(out[1]), nr), conn, opi)
            return False
        if out != ("snep", 0xC1):
            if out == ("ret", None) and timed_out:
                codes_now = ev.snep_codes_since(conn, o) if link.quiesce() else None
                if codes_now is not None and 0xC1 not in codes_now:
                    R.count("timed_out_calls_judged_at_quiescence")
                    ev.viol("snep/get/excess/no-error-response-on-wire", "get with acceptable length %d, answer %d octets: the call gave "
                            "up and the quiescent link shows no Excess Data response" % (A, nr), conn, opi)
                    return False
                R.inconc("snep get ended by the client time-out")
                return False
            ev.viol("snep/get/excess/outcome-%s" % outcome_tag(out), "get with acceptable length %d, answer %d octets -> %s instead of SnepError(C1h)"
                    % (A, nr, outcome_tag(out)), conn, opi)
            return False
        if single and 0xC1 not in codes:
            ev.viol("snep/get/excess/no-error-response-on-wire", "no Excess Data response on the wire", conn, opi)
            return False
        R.count("snep_get_excess_refused")
        R.seen("get_acceptable_relation", nr - A if nr - A <= 8 else "+far")
        return True

    # ------------------------------------------------------------------------------------------- handover
    q, rsp = op["_msg"], op["_resp"]
    nq, nr = len(q), len(rsp)
    key = ("ho", nq, nr, up_miu, down_miu, role, agf, conn["rw"], cfg["ho"][srv_end]["recv_buf"], opi,
           len(record_offsets(q)), len(record_offsets(rsp)))
    R.case(key)
    sent_ok, got = out[1], out[2]
    if not sent_ok:
        if not link.alive():
            R.inconc("handover send_octets failed on a dead link")
            return False
        # what the wire shows about it: a Frame Reject from the server's side of the connection, and whether that side
        # ever sent an I / RR / RNR PDU on it (never + first message of the connection = lost at connection set-up)
        pdus = ev.conn_pdu_types(conn, o)
        frmr = pdus is not None and "FRMR" in pdus
        ev.viol("handover/request/send-failed" + ("/frame-rejected" if frmr else "")
                + ev.never_answered(conn, opi, ev.request_fate(conn, op, o)),
                "send_octets returned %r on a live connection%s" % (sent_ok, " (the server's side answered with a Frame Reject PDU)"
                                                                     if frmr else ""), conn, opi)
        return False
    r = ev.delivery("handover", "ho", conn, opi, o, srv_end, "ho", "app", q, batch_msgs, True, timed_out and got is None)
    if r is not True:
        return False
    R.count("ho_request_checked")
    if opi > 0:
        R.count("ho_request_checked_nth_on_connection")
    edge_note("ho_request", nq, 0, up_miu)
    note_record_boundaries(R, "request", q, 0, up_miu)
    if nq > up_miu:
        R.count("fragmented_requests")
    if got == rsp:
        checked("ho_response_checked")
        edge_note("ho_response", nr, 0, down_miu)
        note_record_boundaries(R, "select", rsp, 0, down_miu)
        if nr > down_miu:
            R.count("fragmented_responses")
        if R.evals % 97 == 3:
            R.sample({"handover_request": nq, "select": nr, "send_miu": up_miu, "recv_miu": down_miu, "request_I_pdus": nup,
                      "response_I_pdus": ndown, "nth_on_connection": opi + 1})
        return True
    if got is None or got == b"":
        if timed_out:
            if not ev.wire_response_incomplete(conn, opi, o, rsp, "handover/response/incomplete-on-wire"):
                R.inconc("handover recv_octets ended by its time-out although the request was delivered")
            return False
        ev.viol("handover/response/missing", "recv_octets returned %r, the server application answered %d octets" % (got, nr), conn, opi)
        return False
    how = classify(got, rsp, link.history).replace("delivered-altered/", "")
    ev.viol("handover/response/differs/%s" % how, "recv_octets returned %d octets, the server application answered %d octets" % (len(got), nr), conn, opi)
    return False


def leftovers(ev, final=False):
    """application calls nobody asked for (checked when the wire is idle)"""
    link = ev.link
    for e in link.book.entries:
        if e["claimed"]:
            continue
        e["claimed"] = True
        proto = "handover" if e["svc"] == "ho" else "snep"
        if e["octets"] in link.unjudged:
            ev.R.count("late_delivery_of_an_inconclusive_operation")
            continue
        how = "stale-redelivery" if e["octets"] in link.history else "unknown-octets"
        if how == "stale-redelivery" and e["tid"] in ev.stale_tids:
            ev.R.count("further_stale_redeliveries_by_a_reported_server_thread")
            continue
        ev.viol("%s/unexpected-delivery/%s" % (proto, how), "the %s server application at end %s was called with %d octets "
                "that no pending transfer explains" % (proto, e["end"], len(e["octets"])), {"proto": proto, "ops": []}, -1)


# ---------------------------------------------------------------------------------------------------------------
class Budget:
    """workload control only: a shard stops early after too many blocked / timed-out calls (mutants, defects)"""
    def __init__(self, slow_limit=8):
        self.slow = 0
        self.slow_limit = slow_limit
        self.link_losses = 0
        self.link_loss_limit = 3
        self.old_links = []

    def exhausted(self):
        return self.slow >= self.slow_limit


def wait_clients(link, threads, results, batch):
    """join the client threads; a thread counts as blocked when it is still inside a call although the wire has
    been idle (SYMM only) for longer than any time-out the call could be waiting on (close() waits on none)."""
    cap = time.monotonic() + 20.0 + sum(2 * conn_timeout(conn) + 2 for conn in batch for _ in conn["ops"])
    longest = max(conn_timeout(conn) for conn in batch)
    while True:
        for t in threads:
            t.join(0.02)
        now = time.monotonic()
        idle = now - link.last_active
        waiting = [res for t, res in zip(threads, results) if t.is_alive()]
        if not waiting:
            return True
        if idle > longest + 1.5 or now > cap:
            return False
        if idle > 1.5 and all(res.get("phase") == "close" for res in waiting):
            return False


def run_link(cfg, script, R, budget=None, factory=None):
    """execute one link scenario (a fresh link is started after a batch with a violation or a blocked call, because
    nothing observed later on such a link could be attributed); returns number of violations reported"""
    classes()
    budget = budget or Budget(slow_limit=10 ** 6)
    sys.setswitchinterval(cfg.get("switch", 0.005))
    for batch in script:
        for conn in batch:
            materialize(conn)
    hook_prev = threading.excepthook
    current = {}

    def hook(args):
        from vf.core.rec import exc_sig
        if args.exc_type is SystemExit or "link" not in current:
            return
        current["link"].book.thread_exc.append((args.thread.name if args.thread else "?", exc_sig(args.exc_value),
                                                repr(args.exc_value)[:200]))
    threading.excepthook = hook
    nviol = 0
    link = None
    first = 0                    # index of the first batch executed on the current link (witness = script[first:bi+1])
    try:
        bi = -1
        retry = False
        while bi + 1 < len(script) or retry:
            if not retry:
                bi += 1
            retry = False
            batch = script[bi]
            if budget.exhausted():
                R.count("batches_not_run_budget", len(script) - bi)
                break
            if link is not None and not link.alive():      # lost while idle between two batches: nothing to judge
                R.count("links_lost_between_batches")
                R.seen("link_lost_diag", link.diag()[:160])
                link.kill()
                link.signal_stop()
                budget.old_links.append(link)
                if link.exclusive:
                    finish_links(budget, R)
                link = None
            if link is None:
                for attempt in range(4):          # link set-up runs in real time: retry before giving up
                    link = (factory or Link)(cfg)
                    current["link"] = link
                    first = bi
                    if link.start():
                        break
                    diag = link.diag()
                    R.count("link_start_retries")
                    link.kill()
                    link.signal_stop()
                    budget.old_links.append(link)
                    if budget.old_links[-1].exclusive:
                        finish_links(budget, R)
                    link = None
                if link is None:
                    R.inconc("link did not come up in 4 attempts: %s" % diag)
                    return nviol
                R.count("links" if link.kind == "pipe" else "fullstack_links")
                if link.kind == "fullstack":
                    dep = cfg.get("dep", {})
                    for k in ("lri", "lrt", "brs", "acm"):
                        R.seen("fullstack_link_" + k, dep.get(k) if k != "acm" else bool(dep.get(k)))
                R.seen("link_miu", "%d/%d" % (cfg["miu"]["A"], cfg["miu"]["B"]))
                R.seen("aggregation", "%d%d" % (cfg["agf"]["A"], cfg["agf"]["B"]))
            ev = Evaluator(link, R, cfg, strip(script[first:bi + 1]))
            results = [{} for _ in batch]
            threads = [threading.Thread(target=run_conn, args=(link, conn, res), name="vf-client-%d" % i, daemon=True)
                       for i, (conn, res) in enumerate(zip(batch, results))]
            for t in threads:
                t.start()
            wait_clients(link, threads, results, batch)
            stuck = [(t, conn, res, thread_stack(t)) for t, conn, res in zip(threads, batch, results) if t.is_alive()]
            if not link.alive() and budget.link_losses < budget.link_loss_limit:
                # the link itself ended (nothing the harness did): the batch is executed again on a fresh link instead
                # of being judged on half-finished calls; bounded per shard, after that it is judged as it is
                budget.link_losses += 1
                R.count("batches_repeated_after_link_loss")
                R.seen("link_lost_diag", link.diag()[:160])
                link.kill()
                for t in threads:
                    t.join(5.0)
                link.signal_stop()
                budget.old_links.append(link)
                if link.exclusive:
                    finish_links(budget, R)
                link = None
                for conn in batch:
                    for k in [k for k in conn if k.startswith("_")]:
                        del conn[k]
                    materialize(conn)
                retry = True
                continue
            R.count("batches")
            R.count("connections", len(batch))
            if len(batch) > 1:
                R.count("concurrent_batches")
            if any(op_expect_refusal(cfg, conn, op) for conn in batch for op in conn["ops"]) and not stuck:
                link.settle(2.0)          # a refused message must not show up late either
            evaluate_batch(ev, batch, results)
            for t, conn, res, stack in stuck:
                budget.slow += 1
                proto = "snep" if conn["proto"] == "snep" else "handover"
                died = [x for x in link.book.thread_exc if "@nfc/" in x[1]]
                if not conn.get("_violated") and res.get("cur"):
                    ev.blocked_call(conn, res)
                if not conn.get("_violated") and res.get("cur"):
                    ev.deadlocked_call(conn, res, t)
                if conn.get("_violated"):
                    R.count("blocked_after_violation_on_same_connection")
                elif res.get("phase") == "close" and len(res.get("ops", [])) == len(conn["ops"]):
                    # every transfer of the connection has been judged; a close() that never returns is not a
                    # statement about message delivery (C09's subject) - recorded, link replaced
                    R.count("close_blocked_after_all_transfers_were_judged")
                    R.seen("close_blocked", proto)
                elif died:
                    ev.viol("stuck/%s/%s/server-thread-died/%s" % (proto, res.get("phase", "?").split(":")[-1], died[0][1]),
                            "client blocked in %s after a server thread ended with %s" % (res.get("phase"), died[0][2]), conn, -1)
                else:
                    R.inconc("client thread blocked in phase %s (%s, link alive=%s, wire idle %.1f s); stack:\n%s\nsockets:\n%s"
                             % (res.get("phase"), proto, link.alive(), time.monotonic() - link.last_active, stack[-700:],
                                socket_states(link)))
                    _debug_dump(ev.case, conn, res)
            budget.slow += sum(1 for conn, res in zip(batch, results) for op, o in zip(conn["ops"], res.get("ops", []))
                               if o["dt"] >= 0.9 * conn_timeout(conn) and op["op"] != "badget")
            if link.lag_stats:
                st = link.lag_stats
                for k, v in st.items():
                    if k == "rw":
                        for x in v:
                            R.seen("window_exhausted_receive_window", x)
                    elif k == "max_out":
                        R.max("lag_max_outstanding_i_pdus_at_release", v)
                    else:
                        R.count(k, v)
                link.lag_stats = {}
            if not stuck:
                # application calls nobody asked for (late duplicates): looked for after every batch; the wire is
                # given time to go idle first where that is the last chance on this link
                if bi == len(script) - 1 or ev.nviol:
                    link.settle(2.0)
                leftovers(ev)
            nviol += ev.nviol
            if link.book.thread_exc:
                R.count("thread_exceptions_seen", len(link.book.thread_exc))
                for x in link.book.thread_exc:
                    R.seen("thread_exception", x[1])
                del link.book.thread_exc[:]
            dead = not link.alive()
            if dead and not stuck and not ev.nviol:
                if ev.unverified:
                    R.inconc("link ended during batch %d: %s" % (bi, link.diag()))
                else:
                    # every transfer of the batch was verified end to end before the link went down: the same event as a
                    # link lost while idle between two batches (C06 says nothing about how long a link lives)
                    R.count("links_lost_after_every_transfer_of_the_batch_was_verified")
                    R.seen("link_lost_diag", link.diag()[:160])
            if stuck or ev.nviol or dead:
                if stuck:
                    link.kill()
                    for t, _c, _r, _s in stuck:
                        t.join(5.0)
                link.signal_stop()
                budget.old_links.append(link)
                if link.exclusive:
                    finish_links(budget, R)
                link = None
                R.count("links_restarted_after_violation_or_block")
        return nviol
    finally:
        threading.excepthook = hook_prev
        if link is not None:
            link.signal_stop()
            budget.old_links.append(link)
            if link.exclusive:
                finish_links(budget, R)
        sys.setswitchinterval(0.005)


def socket_states(link):
    """diagnostics for an inconclusive report only (reads nfcpy internals, never used for a verdict)"""
    out = []
    try:
        for end in "AB":
            llc = link.llc(end)
            for i, sap in enumerate(llc.sap):
                for sk in getattr(sap, "sock_list", []) if sap is not None and i > 1 else []:
                    out.append("%s:%s sendq=%s recvq=%s" % (end, sk, [p.name for p in sk.send_queue], [p.name for p in sk.recv_queue]))
    except Exception as e:
        out.append("(socket states unavailable: %r)" % e)
    return "\n".join(out)


def _debug_dump(case, conn, res):
    import os
    d = os.environ.get("VF_C06_DEBUG")
    if d:
        import json
        from vf.core.rec import jsonable
        with open(os.path.join(d, "blocked-%d-%d.json" % (os.getpid(), int(time.time() * 1000) % 100000)), "w") as f:
            json.dump(jsonable({"case": case, "conn": {k: v for k, v in conn.items() if not k.startswith("_") and k != "ops"},
                                "phase": res.get("phase")}), f)


def op_expects_delivery(cfg, conn, op):
    """the message of the operation is within the server's acceptable length: it has to reach the application"""
    if conn["proto"] != "snep":
        return True
    L = cfg["snep"][other(conn["end"])][conn["svc"]]["max_len"]
    L = SNEP_DEFAULT_MAX if L is None else L
    return len(op["_msg"]) <= L if op["op"] == "put" else len(op["_msg"]) + 4 <= L


def op_expect_refusal(cfg, conn, op, strict=False):
    """strict: the NDEF message itself is larger than the acceptable length (not only the get information field)"""
    if conn["proto"] != "snep":
        return False
    L = cfg["snep"][other(conn["end"])][conn["svc"]]["max_len"]
    if L is None:
        return False
    return (op["op"] == "put" and op["n"] > L) or (op["op"] == "get" and op["nq"] + (0 if strict else 4) > L)


def finish_links(budget, R):
    for link in budget.old_links:
        clean = link.wait_stopped()
        R.count(("links_ended_cleanly" if clean else "links_not_ended") if link.kind == "pipe" else
                ("fullstack_links_ended_cleanly" if clean else "fullstack_links_not_ended"))
        link.report(R)
    del budget.old_links[:]


def mid_counter(start=1):
    n = start
    while True:
        yield n
        n += 1


def run(desc, R, rng):
    classes()
    budget = Budget(desc.get("slow_limit", 8))
    if desc.get("kind", "pipe") == "pipe":
        run_seqwrap(desc, R, random.Random(rng.getrandbits(64)))
        run_lag(desc, R, random.Random(rng.getrandbits(64)))
        edges = Edges(rng, desc.get("maxk", 3))
        for li in range(desc["links"]):
            cfg = gen_cfg(rng)
            script = gen_script(rng, cfg, desc["batches"], edges, mid_counter(1))
            run_link(cfg, script, R, budget)
            if budget.exhausted():
                R.count("shard_stopped_early_after_blocked_or_timed_out_calls")
                break
            if li % 8 == 7:
                finish_links(budget, R)
        finish_links(budget, R)
    if desc.get("fullstack"):
        run_fullstack(desc, R, rng)


LAG_KINDS = ("put", "get", "hoq", "hor")


def run_lag(desc, R, rng):
    """the lagging-receiver class (gen_lag), with a budget of its own"""
    budget = Budget(slow_limit=3)
    sh = int(desc.get("shard", 0))
    for rnd in range(desc.get("lag_rounds", 0)):
        rw = LAG_RWS[(sh * 3 + rnd * 5 + int(desc.get("seed", 0))) % len(LAG_RWS)]
        n = desc.get("lag_kinds", 2)
        kinds = [LAG_KINDS[(sh + rnd + j) % 4] for j in range(n)]
        cfg, script = gen_lag(rng, rw, kinds, mid_counter(1))
        run_link(cfg, script, R, budget)
        R.count("lag_links")
        if budget.exhausted():
            R.count("lag_stopped_early_after_blocked_or_timed_out_calls")
            break
    finish_links(budget, R)


def run_seqwrap(desc, R, rng):
    """the sequence-number wrap class, with a budget of its own (a defect elsewhere must not starve it, nor it the sweep)"""
    budget = Budget(slow_limit=4)
    rws = list(SEQWRAP_RW)
    for _round in range(desc.get("seqwrap_rounds", 1)):
        rng.shuffle(rws)
        for rw in rws:
            cfg, script = gen_seqwrap(rng, rw, mid_counter(1))
            run_link(cfg, script, R, budget)
            R.count("seqwrap_links")
            if budget.exhausted():
                R.count("seqwrap_stopped_early_after_blocked_or_timed_out_calls")
                finish_links(budget, R)
                return
    finish_links(budget, R)


def replay(case, R):
    classes()
    if case.get("kind") == "fullstack":
        return replay_fullstack(case, R)
    budget = Budget(slow_limit=10 ** 6)
    run_link(case["cfg"], case["script"], R, budget)
    finish_links(budget, R)


# ---------------------------------------------------------------------------------------------------------------
# part (b): complete stack - two real ContactlessFrontend.connect(llcp=...) over the real nfc.clf.udp driver on the
# in-memory vf.sim.fakenet (activation, ATR/PSL, NFC-DEP chaining, LLCP, SNEP/handover); end "A" is the initiator
class StackLink(Link):
    kind = "fullstack"
    exclusive = True            # FakeNet patches module attributes of nfc.clf.udp: one at a time

    def __init__(self, cfg):
        from vf.sim import fakenet
        from vf.ref import llcp_ref
        self.fakenet = fakenet
        self.ref = llcp_ref
        self.cfg = cfg
        self.book = Book()
        self.frames = []
        self.symm_run = 0
        self.nframes = 0
        self.last_active = time.monotonic()
        self.servers = {"A": [], "B": []}
        self.history = set()
        self.unjudged = set()
        self.book.link = self
        self.lag = None
        self.lag_i = {}
        self.lag_stats = {}
        self.llcs = {}
        self.stop_flag = False
        self.result = None
        self.radio = {"frames": 0, "dep_inf": 0, "dep_chained": 0, "dep_ack": 0, "dep_atn_to": 0, "other": 0, "max_len": 0}
        self.brty = set()
        self.chain = {"i2t": [], "t2i": []}
        self.chain_lens = set()
        self.net = fakenet.FakeNet(clock="real", keep_frames=False)
        self.net.observers.append(self._radio)
        self.thread = None

    # every datagram of the fake network = one radio frame
    def _radio(self, frame):
        r = self.radio
        r["frames"] += 1
        b = frame.payload
        if not b:
            r["other"] += 1
            return
        if frame.brty:
            self.brty.add(frame.brty)
        b = bytes(b)
        r["max_len"] = max(r["max_len"], len(b))
        if b[:1] == b"\xF0":
            b = b[1:]
        if len(b) >= 4 and b[1] in (0xD4, 0xD5) and b[2] in (0x06, 0x07):
            pfb = b[3]
            if pfb & 0xE0 == 0x00:
                r["dep_inf"] += 1
                if pfb & 0x10:
                    r["dep_chained"] += 1
                # chains per direction (DEP_REQ = initiator -> target): the packet numbers of the information frames of
                # one chained LLCP frame; a chain whose PNI steps from 3 to 0 is the modulo-4 boundary inside a chain
                d = "i2t" if b[1] == 0xD4 else "t2i"
                ch = self.chain[d]
                pni = pfb & 0x03
                if not ch or ch[-1] != pni:             # (a retransmission repeats the number)
                    ch.append(pni)
                if not pfb & 0x10:
                    if len(ch) > 1:
                        r["chain_max_" + d] = max(r.get("chain_max_" + d, 0), len(ch))
                        r["chains_" + d] = r.get("chains_" + d, 0) + 1
                        self.chain_lens.add((d, len(ch) if len(ch) < 8 else 8))
                        if any(x == 3 and y == 0 for x, y in zip(ch, ch[1:])):
                            r["chain_pni_wrap_" + d] = r.get("chain_pni_wrap_" + d, 0) + 1
                    del ch[:]
            elif pfb & 0xE0 == 0x40:
                r["dep_ack"] += 1
            else:
                r["dep_atn_to"] += 1
        else:
            r["other"] += 1

    def _startup(self, end):
        K = classes()
        cfg = self.cfg

        def on_startup(llc):
            for i, sv in enumerate(cfg["snep"][end]):
                kw = dict(service_name=SVC_NAMES[i], recv_miu=sv["recv_miu"], recv_buf=sv["recv_buf"])
                if sv.get("max_len") is not None:
                    kw["max_acceptable_length"] = sv["max_len"]
                srv = K["BadSnepServer" if sv.get("bad") else "RecSnepServer"](llc, self.book, end, "snep%d" % i, **kw)
                srv.daemon = True
                self.servers[end].append(srv)
            h = cfg["ho"][end]
            srv = K["RecHandoverServer"](llc, self.book, end, recv_miu=h["recv_miu"], recv_buf=h["recv_buf"])
            srv.daemon = True
            self.servers[end].append(srv)
            return llc
        return on_startup

    def _connected(self, end):
        def on_connect(llc):
            if end == "A":                       # observe the LLCP frames where they enter / leave NFC-DEP
                mac = llc.mac
                orig = mac.exchange

                def exchange(send_data, timeout):
                    if send_data is not None:
                        self._obs("A>B", bytes(send_data), None)
                    r = orig(send_data, timeout)
                    if r is not None:
                        self._obs("B>A", bytes(r), None)
                    return r
                mac.exchange = exchange
            for srv in self.servers[end]:
                srv.start()
            self.llcs[end] = llc
            return True
        return on_connect

    def _pair(self):
        cfg = self.cfg
        dep = cfg.get("dep", {})
        opts = {}
        for end, role in (("A", "initiator"), ("B", "target")):
            o = {"role": role, "miu": cfg["miu"][end], "lto": cfg.get("lto", 2500), "agf": bool(cfg["agf"][end]),
                 "on-startup": self._startup(end)}
            for k in ("brs", "acm", "lri", "lrt", "rwt"):
                if k in dep:
                    o[k] = dep[k]
            opts[end] = o
        try:
            self.result = self.fakenet.run_llcp_pair(
                self.net, opts["A"], opts["B"], on_connect_i=self._connected("A"), on_connect_t=self._connected("B"),
                terminate=lambda res, side: self.stop_flag, watchdog=cfg.get("watchdog", 150.0), max_polls=10 ** 8)
        except BaseException as e:
            self.pair_exc = e

    def start(self):
        self.net.install()
        self.thread = threading.Thread(target=self._pair, name="vf-stack-pair", daemon=True)
        self.thread.start()
        t0 = time.monotonic()
        while time.monotonic() - t0 < 20.0:
            if len(self.llcs) == 2 and all(self.llcs[e].link.ESTABLISHED for e in "AB"):
                self.last_active = time.monotonic()
                return True
            if not self.thread.is_alive():
                return False
            time.sleep(0.002)
        return False

    def llc(self, end):
        return self.llcs[end]

    def alive(self):
        return bool(self.thread is not None and self.thread.is_alive() and len(self.llcs) == 2 and self.net.aborted is None
                    and not self.stop_flag and all(self.llcs[e].link.ESTABLISHED for e in "AB"))

    def diag(self):
        r = self.result
        return "net.aborted=%r pair_exc=%r result=%s" % (self.net.aborted, getattr(self, "pair_exc", None),
                                                           None if r is None else (r.inconclusive, r.exc, r.exc_cb))

    def kill(self):
        self.net.abort("C06 harness: link abandoned")
        self.stop_flag = True

    def signal_stop(self):
        self.stop_flag = True

    def wait_stopped(self):
        if self.thread is not None:
            self.thread.join(15.0)
            if self.thread.is_alive():
                self.net.abort("C06 harness: stack threads did not end")
                self.thread.join(10.0)
        clean = self.thread is None or not self.thread.is_alive()
        try:
            self.net.uninstall()
        except Exception:
            clean = False
        return clean

    def report(self, R):
        R.count("wire_agf_frames", getattr(self, "agf_frames", 0))
        R.count("wire_frames", self.nframes)
        for k, v in self.radio.items():
            if k == "max_len":
                R.max("radio_frame_octets", v)
            elif k.startswith("chain_max_"):
                R.max("radio_dep_" + k, v)
            else:
                R.count("radio_" + (k if not k.startswith("chain") else "dep_" + k), v)
        for b in self.brty:
            R.seen("radio_brty", b)
        for d, n in self.chain_lens:
            R.seen("radio_dep_chain_frames_" + d, n)
        r = self.result
        if r is not None and (r.exc_cb["i"] or r.exc_cb["t"]):
            R.inconc("harness callback failed in the full-stack run: %r" % (r.exc_cb,))


def gen_stack_cfg(rng):
    cfg = gen_cfg(rng)
    cfg["dep"] = {"brs": rng.randrange(3), "lri": rng.randrange(4), "lrt": rng.randrange(4), "acm": rng.random() < 0.7,
                  "rwt": 12}
    cfg["switch"] = 0.005
    return cfg


DEP_LR = (64, 128, 192, 254)       # NFC-DEP length reduction values: maximum frame length (3 octets of it are header)


def gen_depaim(rng, li, mids):
    """complete-stack link aimed at the NFC-DEP frame boundaries: link and socket MIUs large enough that one LLCP I PDU
    is carried by a chain of 1..6 NFC-DEP frames; LRi / LRt 0..3.  A SNEP connection (put request and get response, both
    unfragmented at SNEP level) and a handover dialogue whose I PDUs (3 octets LLCP header + SNEP header + message) are
    k * F + d octets long, F = LR - 3 = the payload of one NFC-DEP frame of that direction, d = -2..+2, one message per
    direction with k = 5 or 6 (a chain of five frames passes the packet number wrap 3 -> 0 whatever number it starts
    with) and others with k = 1..4.  The sizes are only aimed with this model; what the radio carried is counted from
    the frames (radio_dep_chain_*)"""
    cfg = gen_cfg(rng)
    cfg["miu"] = {e: rng.choice([1600, 2000, 2175]) for e in "AB"}
    cfg["agf"] = {e: rng.random() < 0.3 for e in "AB"}
    for e in "AB":
        for sv in cfg["snep"][e]:
            sv.update(recv_miu=1984, recv_buf=rng.choice([1, 2, 15]))
        cfg["snep"][e][1]["max_len"] = 8192
        cfg["ho"][e].update(recv_miu=1984, recv_buf=rng.choice([1, 2, 15]))
    lri, lrt = (li + rng.randrange(2) * 2) % 4, rng.randrange(4)
    cfg["dep"] = {"brs": rng.randrange(3), "lri": lri, "lrt": lrt, "acm": rng.random() < 0.7, "rwt": 12}
    cfg["switch"] = 0.005
    f = {"i2t": DEP_LR[lrt] - 3, "t2i": DEP_LR[lri] - 3}

    def size(direction, k, hdr, floor):
        return max(floor, k * f[direction] + rng.choice([-2, -1, 0, 0, 1, 2]) - 3 - hdr)

    script = []
    end = rng.choice("AB")
    up, down = ("i2t", "t2i") if end == "A" else ("t2i", "i2t")
    ks = [rng.choice([5, 6]), rng.randint(1, 4)]
    conn = {"proto": "snep", "end": end, "svc": 0, "implicit": False, "tuned": {"miu": 1984, "rw": rng.choice([1, 2, 15])},
            "depaim": True, "ops": []}
    for k in ks:
        conn["ops"].append({"op": "put", "n": feasible_ndef_size(size(up, k, 6, 0)), "mid": next(mids)})
    rng.shuffle(ks)
    for k in ks:
        conn["ops"].append({"op": "get", "nq": rng.choice([3, 20, 40]), "nr": feasible_ndef_size(size(down, k, 6, 0)),
                            "mid": next(mids), "rmid": next(mids)})
    rng.shuffle(conn["ops"])
    conn["acc"] = max(op.get("nr", 0) for op in conn["ops"]) + rng.choice([0, 1, 1000])
    script.append([conn])
    end = other(end) if rng.random() < 0.7 else end
    up, down = ("i2t", "t2i") if end == "A" else ("t2i", "i2t")
    script.append([{"proto": "ho", "end": end, "miu": 1984, "rw": rng.choice([1, 2, 15]), "depaim": True,
                    "ops": [{"op": "ho", "nq": size(up, rng.choice([5, 6]), 0, 16), "nr": size(down, rng.choice([5, 6]), 0, 16),
                             "mid": next(mids), "rmid": next(mids)}]}])
    return cfg, script


def run_fullstack(desc, R, rng):
    if not fullstack_available():
        R.count("fullstack_skipped_no_fakenet")
        return
    budget = Budget(desc.get("slow_limit", 8))
    edges = Edges(rng, desc.get("maxk", 3))
    for li in range(desc.get("fullstack_depaim", 0)):
        cfg, script = gen_depaim(rng, li + int(desc.get("shard", 0)), mid_counter(1))
        run_link(cfg, script, R, budget, factory=StackLink)
        finish_links(budget, R)
        if budget.exhausted():
            R.count("shard_stopped_early_after_blocked_or_timed_out_calls")
            return
    for li in range(desc.get("fullstack_lag", 0)):          # the lagging-receiver class over the complete stack
        sh = int(desc.get("shard", 0))
        rw = LAG_RWS[(sh * 5 + li * 3 + int(desc.get("seed", 0))) % len(LAG_RWS)]
        cfg, script = gen_lag(rng, rw, [LAG_KINDS[(sh + li + j) % 4] for j in range(2)], mid_counter(1))
        cfg["dep"] = {"brs": rng.randrange(3), "lri": rng.randrange(4), "lrt": rng.randrange(4), "acm": rng.random() < 0.7, "rwt": 12}
        cfg["switch"] = 0.005
        run_link(cfg, script, R, budget, factory=StackLink)
        R.count("fullstack_lag_links")
        finish_links(budget, R)
        if budget.exhausted():
            R.count("shard_stopped_early_after_blocked_or_timed_out_calls")
            return
    for li in range(desc["fullstack"]):
        cfg = gen_stack_cfg(rng)
        script = gen_script(rng, cfg, desc.get("fullstack_batches", 3), edges, mid_counter(1))
        for batch in script:                   # one connection at a time: NFC-DEP chaining is the subject here
            del batch[1:]
        run_link(cfg, script, R, budget, factory=StackLink)
        finish_links(budget, R)
        if budget.exhausted():
            R.count("shard_stopped_early_after_blocked_or_timed_out_calls")
            break


def replay_fullstack(case, R):
    budget = Budget(slow_limit=10 ** 6)
    run_link(case["cfg"], case["script"], R, budget, factory=StackLink)
    finish_links(budget, R)
